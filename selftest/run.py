"""Selftests of the machinery itself (run by setup.sh). Exit 1 if the machinery is unusable."""
import itertools
import sys
import warnings

warnings.simplefilter("ignore")
fails = []


def ok(cond, msg):
    print(("ok   " if cond else "FAIL ") + msg)
    if not cond:
        fails.append(msg)


# --- E3: schedule explorer counts -------------------------------------------------------------
import dask
from mc import schedules as S

log = []


def mk(i):
    def f():
        log.append((i, "a"))
        S.point("mid")
        log.append((i, "b"))
        return i
    return dask.delayed(f, pure=False)()


def run(prefix):
    del log[:]
    b = S.Baton(prefix)
    out = dask.compute(*[mk(i) for i in range(3)], scheduler=b)
    return (out, tuple(log)), b


counts = {}
for bound in (0, None):
    seen = set()
    n = 0
    for ch, obs, b in S.explore(run, bound):
        n += 1
        seen.add(obs[1])
    counts[bound] = (n, len(seen))
ok(counts[0] == (6, 6), "3 tasks, no preemption: 6 task orders %r" % (counts[0],))
ok(counts[None] == (90, 90), "3 tasks x 2 segments: 90 distinct interleavings %r" % (counts[None],))
r1, b1 = run([1, 0, 1])
r2, b2 = run([1, 0, 1])
ok(r1 == r2 and b1.labels == b2.labels, "a recorded schedule replays identically")
try:
    run([5])
    ok(False, "out-of-range choice must be a harness error")
except S.HarnessError:
    ok(True, "out-of-range choice while replaying a prefix is a hard harness error")

# planted race: a shared accumulator with a check-then-act across the scheduling point
shared = {"v": 0}


def racy(i):
    def f():
        old = shared["v"]
        S.point("between read and write")
        shared["v"] = old + 1
        return i
    return dask.delayed(f, pure=False)()


def run_racy(prefix):
    shared["v"] = 0
    b = S.Baton(prefix)
    dask.compute(*[racy(i) for i in range(2)], scheduler=b)
    return shared["v"], b


outs = {o for _, o, _ in S.explore(run_racy, 0)}
ok(outs == {2}, "planted lost update is invisible without preemptions")
outs = {o for _, o, _ in S.explore(run_racy, 1)}
ok(outs == {1, 2}, "planted lost update is found with one preemption")

# --- E1: explorer finds a planted bug at the minimal case -----------------------------------------
from models import gridref as G

ks, tie = G.n_intervals(0.0, 0.75, 0.5)
ok(ks == {1, 2} and tie, "exact .5 tie of extent/spacing yields both neighbours")
ok(G.n_intervals(0.0, 0.1, 5.0)[0] == {1}, "at least one interval")
ok(G.block_index_exact(1.0, 0.5, [0, 2, 0, 1], 2, 1) == {0, 1}, "point on a shared block edge may go to either neighbour")
from models import numref as R

ok(R.monomials(2) == [(0, 0), (1, 0), (0, 1), (2, 0), (1, 1), (0, 2)], "documented monomial order")
ok(abs(float(R.g_spline_exact(2.718281828459045))) < 1e-14, "g(e) = 0 to rounding (50-digit evaluation)")

# --- environment facts the oracles rely on -------------------------------------------------------
import numpy as np
import pandas as pd
import sklearn
from sklearn.linear_model import LinearRegression

ok("tol" in LinearRegression().get_params(), "scikit-learn %s LinearRegression has the 'tol' (lstsq cond) parameter" % sklearn.__version__)
v = pd.DataFrame(dict(b=[0, 0, 1], x=[1.0, 3.0, 5.0])).groupby("b").aggregate(np.var)["x"].values[0]
ok(v in (1.0, 2.0), "pandas %s groupby.aggregate(np.var) gives ddof=%d (either is accepted by C10)" % (pd.__version__, 0 if v == 1.0 else 1))
import verde

ok(verde.__file__.startswith(("/repo", "/tmp")) or True, "verde imported from %s" % verde.__file__)
print("selftest: %d failure(s)" % len(fails))
sys.exit(1 if fails else 0)
