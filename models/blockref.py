"""
Reference model for blocked reductions: plain Python grouping, exact rational arithmetic.
No verde imports.
"""
from fractions import Fraction as F
import math


def sites(nbx, nby):
    """Two interior sites per unit block of an nbx x nby layout on (0, nbx) x (0, nby); block id row-major from SW."""
    out = []
    for by in range(nby):
        for bx in range(nbx):
            b = by * nbx + bx
            out.append((bx + 0.25, by + 0.25, b))
            out.append((bx + 0.75, by + 0.5, b))
    return out


def group(labels):
    """dict block -> list of point positions (input order), iterated in ascending block order."""
    g = {}
    for i, b in enumerate(labels):
        g.setdefault(b, []).append(i)
    return dict(sorted(g.items()))


def fr(x):
    return F(float(x))


def reduce_exact(name, vals, weights=None):
    """Exact value of a reduction over a list of floats (weights optional), as a Fraction."""
    v = [fr(x) for x in vals]
    if name == "mean":
        return sum(v) / len(v)
    if name == "sum":
        return sum(v)
    if name == "min":
        return min(v)
    if name == "max":
        return max(v)
    if name == "median":
        s = sorted(v)
        m = len(s) // 2
        return s[m] if len(s) % 2 else (s[m - 1] + s[m]) / 2
    if name == "average":
        if weights is None:
            return sum(v) / len(v)
        w = [fr(x) for x in weights]
        return sum(a * b for a, b in zip(v, w)) / sum(w)
    if name == "wsum":
        w = [fr(x) for x in weights]
        return sum(a * b for a, b in zip(v, w))
    raise ValueError(name)


def var_exact(vals, ddof=0, weights=None, mean=None):
    v = [fr(x) for x in vals]
    if weights is None:
        m = sum(v) / len(v)
        if len(v) - ddof <= 0:
            return None  # NaN
        return sum((x - m) ** 2 for x in v) / (len(v) - ddof)
    w = [fr(x) for x in weights]
    m = sum(a * b for a, b in zip(v, w)) / sum(w)
    return sum(b * (a - m) ** 2 for a, b in zip(v, w)) / sum(w)


def variance_to_weights_exact(variances, tol=1e-15):
    """variances: list of Fraction or None (NaN). Returns list of Fractions."""
    vals = [F(0) if x is None else x for x in variances]
    pos = [x for x in vals if x > F(tol)]
    out = []
    for x in vals:
        if x > F(tol):
            out.append(min(pos) / x)
        else:
            out.append(F(1))
    return out


def close(got, want, rel=1e-12):
    want = float(want)
    return abs(float(got) - want) <= rel * max(abs(want), 1e-300) or float(got) == want
