"""
Reference models for the numerical properties (C01-C04, C06): kernels from their formulas, design
matrices, weighted damped least squares by SVD.  numpy only; nothing imported from verde.
"""
import decimal
import math

import numpy as np

EPS = np.finfo(float).eps


# ------------------------------------------------------------------ kernels
def monomials(degree):
    """Documented monomial order: by total degree, within a degree decreasing power of easting."""
    return [(d - j, j) for d in range(degree + 1) for j in range(d + 1)]


def trend_design(e, n, degree):
    e, n = np.asarray(e, dtype=float).ravel(), np.asarray(n, dtype=float).ravel()
    return np.column_stack([e ** i * n ** j for i, j in monomials(degree)])


def g_spline(r):
    """g(r) = r^2 (ln r - 1), g(0) = 0."""
    r = np.asarray(r, dtype=float)
    out = np.zeros_like(r)
    pos = r > 0
    rp = r[pos]
    out[pos] = rp * rp * (np.log(rp) - 1.0)
    return out


def g_spline_exact(r, digits=50):
    """The same with 50-digit decimals (for a float r taken exactly); returns Decimal."""
    ctx = decimal.Context(prec=digits)
    r = ctx.create_decimal(decimal.Decimal(float(r)))
    if r == 0:
        return decimal.Decimal(0)
    return ctx.multiply(ctx.multiply(r, r), ctx.subtract(ctx.ln(r), decimal.Decimal(1)))


def spline_design(e, n, fe, fn, mindist=0.0):
    e, n = np.asarray(e, dtype=float).ravel(), np.asarray(n, dtype=float).ravel()
    fe, fn = np.asarray(fe, dtype=float).ravel(), np.asarray(fn, dtype=float).ravel()
    r = np.hypot(e[:, None] - fe[None, :], n[:, None] - fn[None, :]) + mindist
    return g_spline(r)


def elastic_parts(dx, dy, mindist, nu):
    """Sandwell & Wessel (2016) 2-D elastic Green's functions with the documented mindist fudge."""
    r = np.hypot(dx, dy) + mindist
    lnr = (3.0 - nu) * np.log(r)
    q = (1.0 + nu) / (r * r)
    return lnr + q * dy * dy, lnr + q * dx * dx, -q * dx * dy  # ee, nn, ne


def elastic_design(e, n, fe, fn, mindist, nu):
    e, n = np.asarray(e, dtype=float).ravel(), np.asarray(n, dtype=float).ravel()
    fe, fn = np.asarray(fe, dtype=float).ravel(), np.asarray(fn, dtype=float).ravel()
    dx = e[:, None] - fe[None, :]
    dy = n[:, None] - fn[None, :]
    ee, nn, ne = elastic_parts(dx, dy, mindist, nu)
    return np.block([[ee, ne], [ne, nn]])


# ------------------------------------------------------------------ least squares
def column_scale(J):
    """Population standard deviation of every column, 1 for (numerically) constant columns - what
    StandardScaler(with_mean=False) divides by."""
    J = np.asarray(J, dtype=float)
    mean = J.mean(axis=0)
    var = ((J - mean) ** 2).mean(axis=0)
    scale = np.sqrt(var)
    # scikit-learn treats a column as constant when its variance is within rounding of zero
    bound = J.shape[0] * EPS * var + (J.shape[0] * mean * EPS) ** 2
    const = var <= bound
    scale = np.where(const, 1.0, scale)
    return scale, const


def solve(J, d, w=None, damping=None):
    """Weighted, damped least squares in unit-variance column scaling.
    Returns dict(params, cond, rank_deficient, near_constant)."""
    J = np.asarray(J, dtype=float)
    d = np.asarray(d, dtype=float).ravel()
    scale, const = column_scale(J)
    Js = J / scale
    if w is not None:
        sw = np.sqrt(np.asarray(w, dtype=float).ravel())
        A = Js * sw[:, None]
        b = d * sw
    else:
        A, b = Js, d
    if damping is not None:
        A = np.vstack([A, math.sqrt(damping) * np.eye(J.shape[1])])
        b = np.concatenate([b, np.zeros(J.shape[1])])
    sv = np.linalg.svd(A, compute_uv=False)
    smax = sv[0] if sv.size else 0.0
    smin = sv[-1] if sv.size else 0.0
    full = A.shape[0] >= A.shape[1] and smin > 0
    cond = (smax / smin) if smin > 0 else float("inf")
    p, *_ = np.linalg.lstsq(A, b, rcond=None)
    return dict(params=p / scale, cond=cond, fullrank=bool(full and cond < 1 / (A.shape[1] * EPS)), scale=scale,
                smax=smax, A=A, b=b)


def tol(cond, scale, factor=256.0):
    return factor * cond * EPS * max(scale, 1e-300)
