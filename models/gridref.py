"""
Reference model for regular coordinates, blocks and windows in exact rational arithmetic.
Shares no code with verde (and imports nothing from it).
"""
from fractions import Fraction as F
import math


def fr(x):
    """Exact rational value of a float / int / Fraction."""
    if isinstance(x, F):
        return x
    if isinstance(x, int):
        return F(x)
    return F(float(x))


def n_intervals(start, stop, spacing):
    """Admissible interval counts: nearest integer to extent/spacing, both neighbours on a tie, at least 1.

    Returns (set_of_admissible_counts, is_tie)."""
    ratio = (fr(stop) - fr(start)) / fr(spacing)
    lo = math.floor(ratio)
    frac = ratio - lo
    if frac == F(1, 2):
        cands = {lo, lo + 1}
        tie = True
    elif frac < F(1, 2):
        cands = {lo}
        tie = False
    else:
        cands = {lo + 1}
        tie = False
    return {max(1, int(c)) for c in cands}, tie


def line_nodes_spacing(start, stop, spacing, adjust, pixel, k):
    """Exact nodes for k intervals (k from n_intervals)."""
    start, stop, spacing = fr(start), fr(stop), fr(spacing)
    if adjust == "spacing":
        step = (stop - start) / k
        end = stop
    elif adjust == "region":
        step = spacing
        end = start + k * spacing
    else:
        raise ValueError(adjust)
    if pixel:
        nodes = [start + (i + F(1, 2)) * step for i in range(k)]
    else:
        nodes = [start + i * step for i in range(k + 1)]
    return nodes, step, end


def line_nodes_size(start, stop, size, pixel):
    start, stop = fr(start), fr(stop)
    if pixel:
        step = (stop - start) / size
        return [start + (i + F(1, 2)) * step for i in range(size)], step
    if size == 1:
        return [start], None
    step = (stop - start) / (size - 1)
    return [start + i * step for i in range(size)], step


def ulp_scale(*vals):
    m = max([abs(float(v)) for v in vals] + [0.0])
    return math.ulp(m) if m > 0 else 5e-324


def close_nodes(got, want, scale_vals, nulp=4):
    """got: sequence of floats; want: list of Fractions. True if all within nulp ulps of the scale."""
    if len(got) != len(want):
        return False
    tol = nulp * ulp_scale(*scale_vals)
    for g, w in zip(got, want):
        if abs(F(float(g)) - w) > F(tol):
            return False
    return True


def block_index_exact(e, n, region, ne, nn, guard=(0, 0)):
    """Admissible row-major block labels of a point for a region cut into nn x ne blocks.

    Points outside are clamped per axis; points exactly on a shared edge - or closer to it than the absolute `guard` of that axis
    (round-off of an implementation that computes with the coordinates' magnitudes) - get both neighbours."""
    w, ea, s, no = [fr(v) for v in region]

    def axis(x, lo, hi, k, g):
        x = fr(x)
        if hi == lo:
            return {0} if k == 1 else set(range(k))
        size = (hi - lo) / k
        t = (x - lo) / size
        out = set()
        for tt in ((t,) if not g else (t - fr(g) / size, t, t + fr(g) / size)):
            if tt <= 0:
                out |= {0}
            elif tt >= k:
                out |= {k - 1}
            else:
                i = math.floor(tt)
                out |= {i - 1, i} if tt == i else {i}
        return out

    cols = axis(e, w, ea, ne, guard[0])
    rows = axis(n, s, no, nn, guard[1])
    return {r * ne + c for r in rows for c in cols}


def axis_layouts(lo, hi, size=None, spacing=None, adjust="spacing", pixel=False):
    """All admissible exact node layouts of one axis: {k: [Fractions]} and the largest end value."""
    if size is not None:
        nodes, _ = line_nodes_size(lo, hi, size, pixel)
        return {size: nodes}, float(hi)
    ks, _ = n_intervals(lo, hi, spacing)
    out = {}
    mx = float(hi)
    for k in ks:
        nodes, _, end = line_nodes_spacing(lo, hi, spacing, adjust, pixel, k)
        out[k] = nodes
        mx = max(mx, float(end))
    return out, mx


def match_axis(got, layouts, scale_vals, nulp=4):
    """Return the key of the first admissible layout that `got` (floats) matches within nulp ulps, else None."""
    got = list(got)
    for k, nodes in layouts.items():
        if len(nodes) == len(got) and close_nodes(got, nodes, scale_vals, nulp):
            return k
    return None
