"""
Plain unit tests that replay recorded violations without the explorer:

    PYTHONPATH=/repo:/verif OMP_NUM_THREADS=1 /venv/bin/python -m pytest -q /verif/replay_tests.py

Every /verif/replays/<ID>/<hash>.json written by a failing check becomes one test case that re-executes
exactly that case (input, operation list, history or schedule) against the current /repo.
"""
import glob
import importlib
import json
import os

import pytest

HERE = os.path.dirname(os.path.abspath(__file__))
FILES = sorted(glob.glob(os.path.join(HERE, "replays", "*", "*.json")))


@pytest.mark.parametrize("path", FILES or [None])
def test_replay(path):
    if path is None:
        pytest.skip("no recorded violations")
    from mc import explore as ex

    rep = json.load(open(path))
    mod = importlib.import_module("checks.%s" % rep["property"].lower())
    rec = ex.run_one(mod, rep["case"])
    assert rec.ok, "property %s violated on the recorded case:\n%s" % (rep["property"], "\n".join(rec.msgs))
