#!/bin/bash
# Offline setup: nothing to build (pure Python, stdlib + the packages already in /venv).
# Runs the machinery's own selftests so that an unusable environment shows up here.
cd "$(dirname "$0")" || exit 1
mkdir -p evidence replays
if [ -f selftest/run.py ]; then
  PYTHONPATH="/repo:$PWD" PYTHONHASHSEED=0 OMP_NUM_THREADS=1 /venv/bin/python selftest/run.py || exit 1
fi
exit 0
