"""
E3: schedule explorer for dask graphs built by the code under test.

The explorer *is* the dask scheduler (dask.compute(..., scheduler=Baton(...)) or
dask.config.set(scheduler=...)), i.e. it owns the only source of nondeterminism.  Every graph
task runs in its own thread under a baton: exactly one thread is runnable at any time, and
control returns to the explorer at every scheduling point - task start, task end, and every call
of `point(label)` made by the harness estimator (method boundaries).  Choice sequences are
enumerated depth first with iterative preemption bounding (a switch away from a thread that
could have continued costs one preemption).

enabled threads are listed in canonical order: the running thread first if it is still enabled,
then ascending task index; choice 0 is therefore "let the current thread continue".
"""
import sys
import threading

_local = threading.local()


class HarnessError(RuntimeError):
    """A problem of the exploration machinery itself (never reported as a property violation)."""


def point(label):
    """Scheduling point; a no-op outside an exploration."""
    ctx = getattr(_local, "ctx", None)
    if ctx is not None:
        ctx[0]._yield(ctx[1], label)


class Baton:
    """One execution under a prescribed prefix of choices (default choice 0 afterwards)."""

    def __init__(self, prefix=(), trace_files=(), trace_funcs=None):
        """trace_files: path suffixes of source files in which EVERY executed line is a scheduling point (sys.settrace in the
        task threads): line-granular interleaving of the code under test's own orchestration, no hand-placed points needed."""
        self.trace_files = tuple(f for f in trace_files if not f.endswith("/"))
        self.trace_dirs = tuple(f for f in trace_files if f.endswith("/"))   # "verde/": every source file below a directory of that name
        self.trace_funcs = None if trace_funcs is None else set(trace_funcs)   # restrict line tracing to these function names
        self.prefix = list(prefix)
        self.trace = []      # one dict per decision: enabled, choice, cur_enabled
        self.labels = []     # (task index, label) in execution order
        self.error = None

    # -- called by dask -------------------------------------------------------------------
    def __call__(self, dsk, keys, **kwargs):
        graph = dict(dsk.__dask_graph__()) if hasattr(dsk, "__dask_graph__") else dict(dsk)
        order = list(graph)                      # creation order of the delayed objects
        index = {k: i for i, k in enumerate(order)}
        deps = {k: sorted((d for d in getattr(graph[k], "dependencies", ()) if d in graph), key=index.get) for k in order}
        self.shape = [(str(k).rsplit("-", 5)[0], [index[d] for d in deps[k]]) for k in order]
        results = {}
        state = {k: "new" for k in order}        # new / running / done
        sems = {k: threading.Semaphore(0) for k in order}
        ctrl = threading.Semaphore(0)
        self._ctrl = ctrl
        self._sems = sems
        threads = {}
        failure = {}

        def make_tracer(k):
            files = self.trace_files
            dirs = self.trace_dirs

            def local(frame, event, arg):
                if event == "line":
                    self._yield(k, "%s:%d" % (frame.f_code.co_filename.rsplit("/", 1)[-1], frame.f_lineno))
                return local

            def tracer(frame, event, arg):
                name = frame.f_code.co_filename
                if event == "call" and ((files and name.endswith(files)) or any("/" + d in name for d in dirs)) and (
                        self.trace_funcs is None or frame.f_code.co_name in self.trace_funcs):
                    return local
                return None

            return tracer

        def body(k):
            sems[k].acquire()
            _local.ctx = (self, k)
            if self.trace_files or self.trace_dirs:
                sys.settrace(make_tracer(k))
            try:
                t = graph[k]
                if callable(t):
                    results[k] = t({d: results[d] for d in deps[k]})
                else:
                    results[k] = t
            except BaseException as exc:  # noqa: BLE001
                failure[k] = exc
                results[k] = exc
            finally:
                if self.trace_files or self.trace_dirs:
                    sys.settrace(None)
                _local.ctx = None
                state[k] = "done"
                ctrl.release()

        for k in order:
            th = threading.Thread(target=body, args=(k,), daemon=True)
            threads[k] = th
            th.start()
        self._index = index
        current = None
        step = 0
        while any(s != "done" for s in state.values()):
            enabled = [k for k in order if state[k] == "running" or (state[k] == "new" and all(state[d] == "done" for d in deps[k]))]
            if not enabled:
                raise HarnessError("deadlock: no enabled task")
            cur_enabled = current in enabled
            if cur_enabled:
                enabled.remove(current)
                enabled.insert(0, current)
            choice = self.prefix[step] if step < len(self.prefix) else 0
            if choice >= len(enabled):
                raise HarnessError("divergence while replaying a prefix: choice %d of %d at step %d" % (choice, len(enabled), step))
            chosen = enabled[choice]
            self.trace.append(dict(enabled=[index[k] for k in enabled], choice=choice, cur_enabled=cur_enabled))
            if state[chosen] == "new":
                state[chosen] = "running"
                self.labels.append((index[chosen], "start"))
            current = chosen
            sems[chosen].release()
            ctrl.acquire()
            step += 1
        for th in threads.values():
            th.join()
        # values of the tasks, by creation order, for oracles that look at intermediate results
        self.values = [(self.shape[index[k]][0], results[k]) for k in order]
        if failure:
            k = sorted(failure, key=index.get)[0]
            raise failure[k]

        def get(ks):
            if isinstance(ks, list):
                return [get(x) for x in ks]
            if isinstance(ks, tuple) and ks not in results:
                return tuple(get(x) for x in ks)
            return results[ks]

        return get(keys)

    # -- called from task threads ------------------------------------------------------------
    def _yield(self, key, label):
        self.labels.append((self._index[key], label))
        self._ctrl.release()
        self._sems[key].acquire()


def explore(run, bound=None, limit=200000, part=None):
    """Enumerate executions.  run(prefix) -> (observation, Baton).  Yields (choices, observation, baton).

    bound: maximal number of preemptions (None = all interleavings).
    part=(r, m): share r of m of the bounded space - the default schedule and every schedule that deviates from it once are run by
    every share (they are needed to enumerate the rest), the subtrees below them are dealt out round-robin."""
    stack = [([], 0)]
    count = 0
    dealt = 0
    while stack:
        prefix, depth = stack.pop()
        obs, b = run(prefix)
        count += 1
        if count > limit:
            raise HarnessError("schedule limit %d exceeded" % limit)
        choices = [t["choice"] for t in b.trace]
        yield choices, obs, b
        # preemptions used before each decision
        used = 0
        pre = []
        for t in b.trace:
            pre.append(used)
            if t["cur_enabled"] and t["choice"] != 0:
                used += 1
        for i in range(len(prefix), len(b.trace)):
            t = b.trace[i]
            for alt in range(1, len(t["enabled"])):
                cost = pre[i] + (1 if t["cur_enabled"] else 0)
                if bound is not None and cost > bound:
                    continue
                if part is not None and depth == 1:
                    dealt += 1
                    if dealt % part[1] != part[0]:
                        continue
                stack.append((choices[:i] + [alt], depth + 1))


def count_topological_orders(shape):
    """Number of linear extensions of the dependency graph given as [(name, [dep indices])] (small graphs)."""
    n = len(shape)
    deps = [set(d) for _, d in shape]
    from functools import lru_cache

    @lru_cache(maxsize=None)
    def rec(done):
        if len(done) == n:
            return 1
        total = 0
        ds = set(done)
        for i in range(n):
            if i not in ds and deps[i] <= ds:
                total += rec(tuple(sorted(ds | {i})))
        return total

    return rec(())


# ---------------------------------------------------------------------------------------------------------------------
# Deviation-bounded exploration of environment answers (sequential code with a nondeterministic environment)
class Chooser:
    """Environment that answers choice points from a prefix (default answer 0 afterwards) and records what it was asked."""

    def __init__(self, prefix=()):
        self.prefix = list(prefix)
        self.trace = []   # (number of options, choice, label)

    def choose(self, n, label=""):
        i = len(self.trace)
        c = self.prefix[i] if i < len(self.prefix) else 0
        if c >= n:
            raise HarnessError("divergence while replaying a prefix: choice %d of %d at point %d (%s)" % (c, n, i, label))
        self.trace.append((n, c, label))
        return c


def explore_choices(run, bound=None, limit=200000):
    """run(Chooser) -> observation.  Enumerates every choice sequence with at most `bound` deviations from the default answer 0
    (None: all).  Yields (choices, observation, chooser)."""
    stack = [[]]
    count = 0
    while stack:
        prefix = stack.pop()
        ch = Chooser(prefix)
        obs = run(ch)
        count += 1
        if count > limit:
            raise HarnessError("choice-sequence limit %d exceeded" % limit)
        choices = [c for _, c, _ in ch.trace]
        yield choices, obs, ch
        used = sum(1 for c in choices[:len(prefix)] if c)
        dev = used
        for i in range(len(prefix), len(ch.trace)):
            n = ch.trace[i][0]
            if bound is None or dev + 1 <= bound:
                for alt in range(1, n):
                    stack.append(choices[:i] + [alt])
            if choices[i]:
                dev += 1
