"""
E1: exhaustive case-space explorer.

A check module provides

    ID            property id, e.g. "C07"
    RULE          one paragraph: how cases are enumerated, what makes one non-trivial
    cases(tier, seed)   deterministic generator of JSON-able case dicts, simplest first
    run(case)           executes the real verde code and the reference model on ONE case
                        and returns an Outcome (see class Rec)

The explorer enumerates *every* case of the declared space (no sampling): each of
the N worker processes re-generates the case stream and executes the cases whose
index is congruent to its rank, so nothing crosses a pipe but the summaries.  The
seed only selects which *frames* a quick run includes (see spaces.frames); it
never draws inputs.
"""
import hashlib
import itertools
import json
import multiprocessing as mp
import os
import sys
import time
import traceback
import warnings
from collections import Counter

from . import findings

MAX_KEEP = 60  # violations kept per worker (all are counted)


class ExplorationTimeout(RuntimeError):
    """The exploration did not finish within the time limit (about 30 times what it needs on the unchanged tree): the code under
    test hangs or has become pathologically slow on some case."""

    def __init__(self, limit):
        super().__init__("exploration did not finish within %.0f s" % limit)
        self.limit = limit


class Rec:
    """Outcome recorder for one case.

    check(cond, msg)      an oracle assertion; first failing message is kept
    trans(n)              n calls into verde were made
    cls(tag)              outcome class (branch / layout / bucket) for vacuity stats
    ratio(x)              observed error / tolerance, head-room monitor
    skip(reason)          the case (or a clause) is outside the comparable space
    """

    __slots__ = ("ok", "msgs", "ntrans", "classes", "maxratio", "skips", "trivial", "key", "fkey", "nchecks",
                 "counters", "substates")

    def __init__(self):
        self.ok = True
        self.msgs = []
        self.ntrans = 0
        self.classes = []
        self.maxratio = 0.0
        self.skips = []
        self.trivial = False
        self.key = None
        self.fkey = None
        self.nchecks = 0
        self.counters = {}
        self.substates = []

    def count(self, name, n=1):
        """Generic named counter (schedules explored, BFS states, ...), summed over cases."""
        self.counters[name] = self.counters.get(name, 0) + n

    def state(self, obj):
        """Register a distinct sub-state (history / schedule / abstract-concrete pair) of this case."""
        self.substates.append(_digest(obj))

    def check(self, cond, msg, fkey=None):
        self.nchecks += 1
        if not cond:
            self.ok = False
            if len(self.msgs) < 5:
                self.msgs.append(msg if isinstance(msg, str) else str(msg))
            # a case is attributed to a known finding only if EVERY failing assertion carries that
            # finding's key; one failure without a key (or with another key) poisons the attribution
            if fkey is None or (self.fkey is not None and self.fkey != fkey):
                self.fkey = False
            elif self.fkey is None:
                self.fkey = fkey
        return bool(cond)

    def trans(self, n=1):
        self.ntrans += n

    def cls(self, tag):
        self.classes.append(str(tag))

    def ratio(self, x):
        try:
            x = float(x)
        except Exception:
            return
        if x == x and x > self.maxratio:
            self.maxratio = x

    def skip(self, reason):
        self.skips.append(str(reason))


def _digest(obj):
    if not isinstance(obj, (str, bytes)):
        obj = json.dumps(obj, sort_keys=True, default=repr)
    if isinstance(obj, str):
        obj = obj.encode()
    return hashlib.blake2b(obj, digest_size=8).digest()


def _worker(args):
    modname, tier, seed, rank, nworkers = args
    warnings.simplefilter("ignore")
    mod = __import__(modname, fromlist=["x"])
    pid = mod.ID
    t0 = time.time()
    stats = dict(
        n=0, nontrivial=0, trans=0, nchecks=0, states=set(), nt_states=set(), classes=Counter(), skips=Counter(),
        viol=[], nviol=0, samples=[], maxratio=0.0, maxratio_case=None, rank=rank, counters=Counter(), known=Counter(),
    )
    gen = mod.cases(tier, seed)
    for idx, case in zip(itertools.count(rank, nworkers), itertools.islice(gen, rank, None, nworkers)):
        rec = run_one(mod, case)
        stats["n"] += 1
        stats["trans"] += rec.ntrans
        stats["nchecks"] += rec.nchecks
        dg = _digest(rec.key if rec.key is not None else case)
        if not rec.trivial:
            stats["nontrivial"] += 1
            stats["nt_states"].add(dg)
        stats["states"].add(dg)
        stats["states"].update(rec.substates)
        for k, v in rec.counters.items():
            stats["counters"][k] += v
        for c in rec.classes:
            stats["classes"][c] += 1
        for s in rec.skips:
            stats["skips"][s] += 1
        if rec.maxratio > stats["maxratio"]:
            stats["maxratio"] = rec.maxratio
            stats["maxratio_case"] = case
        if len(stats["samples"]) < 2:
            stats["samples"].append(case)
        if not rec.ok:
            fid = findings.match(pid, rec.fkey)
            if fid is not None:
                stats["known"][fid] += 1
                continue
            stats["nviol"] += 1
            if len(stats["viol"]) < MAX_KEEP:
                stats["viol"].append(dict(index=idx, case=case, msgs=rec.msgs, fkey=rec.fkey))
    stats["wall"] = time.time() - t0
    return stats


def run_one(mod, case):
    """Execute one case; any exception escaping the check body is a violation."""
    rec = Rec()
    try:
        with warnings.catch_warnings():
            warnings.simplefilter("ignore")
            out = mod.run(case, rec)
        if isinstance(out, Rec):
            rec = out
    except Exception as exc:  # noqa: BLE001
        rec.ok = False
        rec.fkey = False
        tb = traceback.format_exc(limit=6)
        rec.msgs.append("exception escaped: %r\n%s" % (exc, tb))
    return rec


def explore(modname, tier, seed, jobs=None):
    """Run the whole space; returns a merged summary dict."""
    jobs = jobs or int(os.environ.get("VERIF_JOBS", "0")) or min(16, os.cpu_count() or 1)
    t0 = time.time()
    if jobs == 1:
        parts = [_worker((modname, tier, seed, 0, 1))]
    else:
        ctx = mp.get_context("fork")
        limit = float(os.environ.get("VERIF_TIME_LIMIT", "0") or 0) or (1500.0 if tier == "quick" else 4 * 3600.0)
        with ctx.Pool(jobs) as pool:
            res = pool.map_async(_worker, [(modname, tier, seed, r, jobs) for r in range(jobs)], chunksize=1)
            try:
                parts = res.get(timeout=limit)
            except mp.TimeoutError:
                pool.terminate()
                raise ExplorationTimeout(limit)
    merged = dict(
        n=0, nontrivial=0, trans=0, nchecks=0, states=set(), nt_states=set(), classes=Counter(), skips=Counter(),
        viol=[], nviol=0, samples=[], maxratio=0.0, maxratio_case=None, counters=Counter(), known=Counter(),
    )
    for p in parts:
        merged["known"] += p["known"]
        merged["counters"] += p["counters"]
        merged["n"] += p["n"]
        merged["nontrivial"] += p["nontrivial"]
        merged["trans"] += p["trans"]
        merged["nchecks"] += p["nchecks"]
        merged["states"] |= p["states"]
        merged["nt_states"] |= p["nt_states"]
        merged["classes"] += p["classes"]
        merged["skips"] += p["skips"]
        merged["viol"] += p["viol"]
        merged["nviol"] += p["nviol"]
        if p["maxratio"] > merged["maxratio"]:
            merged["maxratio"] = p["maxratio"]
            merged["maxratio_case"] = p["maxratio_case"]
    merged["samples"] = [s for p in parts for s in p["samples"][:1]][:3]
    merged["viol"].sort(key=lambda v: v["index"])
    merged["wall"] = time.time() - t0
    merged["jobs"] = jobs
    return merged
