"""Build verde estimators from small JSON-able specs (shared by several checks)."""
import warnings

import numpy as np


def build(spec, extent=1.0):
    """spec: ["Spline", {kwargs}] etc.  mindist values given as fractions of `extent` under key "mindist_rel"."""
    import verde as vd

    name, kw = spec[0], dict(spec[1]) if len(spec) > 1 else {}
    with warnings.catch_warnings():
        warnings.simplefilter("ignore")
        if "mindist_rel" in kw:
            kw["mindist"] = kw.pop("mindist_rel") * extent
        if name == "Spline":
            return vd.Spline(**kw)
        if name == "VectorSpline2D":
            return vd.VectorSpline2D(**kw)
        if name == "KNeighbors":
            red = kw.pop("reduction", None)
            if red is not None:
                kw["reduction"] = getattr(np, red)
            return vd.KNeighbors(**kw)
        if name == "Linear":
            return vd.Linear(**kw)
        if name == "Cubic":
            return vd.Cubic(**kw)
        if name == "Trend":
            return vd.Trend(**kw)
        if name == "Chain":
            return vd.Chain([(_step_name(kw, i), build(s, extent)) for i, s in enumerate(kw["steps"])])
        if name == "Vector":
            return vd.Vector([build(s, extent) for s in kw["components"]])
        if name == "BlockReduce":
            red = getattr(np, kw.pop("reduction"))
            if "spacing_rel" in kw:
                kw["spacing"] = kw.pop("spacing_rel") * extent
            return vd.BlockReduce(red, **kw)
        if name == "BlockMean":
            if "spacing_rel" in kw:
                kw["spacing"] = kw.pop("spacing_rel") * extent
            return vd.BlockMean(**kw)
        if name == "SplineCV":
            return vd.SplineCV(**kw)
    raise ValueError(name)


def _step_name(kw, i):
    """Names of the steps of a Chain spec: distinct by default, all equal with "names": "dup"."""
    return "step" if kw.get("names") == "dup" else "s%d" % i


def ncomp(spec):
    """Number of data components the estimator of this spec consumes."""
    name = spec[0]
    if name == "VectorSpline2D":
        return 2
    if name == "Vector":
        return len(spec[1]["components"])
    if name == "Chain":
        return max(ncomp(s) for s in spec[1]["steps"])
    return 1


ROUTES = ["ctor", "set_params", "attribute", "clone"]


def _perturbed(spec):
    """Same estimator class with other parameter values (numbers moved, reductions swapped); composites keep their members."""
    name, kw = spec[0], dict(spec[1]) if len(spec) > 1 else {}
    out = {}
    for k, v in kw.items():
        if k in ("steps", "components", "force_coords", "engine"):
            out[k] = v
        elif k == "reduction":
            out[k] = {"mean": "median", "median": "mean", "average": "average"}.get(v, "mean")
        elif isinstance(v, bool) or v is None:
            out[k] = v
        elif isinstance(v, int):
            out[k] = v + 2
        elif isinstance(v, float):
            out[k] = 3.0 * v + 1.0
        else:
            out[k] = v
    return [name, out]


def build_via(spec, extent=1.0, route="ctor"):
    """The estimator of `spec`, with its parameters arriving through `route`: the constructor, set_params / attribute assignment on an
    instance constructed with other values, or sklearn.base.clone.  Members of Chain / Vector arrive through the same route."""
    import verde as vd
    from sklearn.base import clone

    name, kw = spec[0], dict(spec[1]) if len(spec) > 1 else {}
    if route == "ctor":
        return build(spec, extent)
    with warnings.catch_warnings():
        warnings.simplefilter("ignore")
        if name == "Chain":
            return vd.Chain([(_step_name(kw, i), build_via(s, extent, route)) for i, s in enumerate(kw["steps"])])
        if name == "Vector":
            return vd.Vector([build_via(s, extent, route) for s in kw["components"]])
        target = build(spec, extent)
        if route == "clone":
            return clone(target)
        est = build(_perturbed(spec), extent)
        params = target.get_params(deep=False)
        if route == "set_params":
            est.set_params(**params)
        else:
            for k, v in params.items():
                setattr(est, k, v)
        return est
