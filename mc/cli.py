"""
Command line of the checks:  ./check <ID> [--tier quick|thorough] [--replay file] [--jobs N]

Exit 0: the property held on everything explored (known findings are printed as
        KNOWN-FINDING lines).
Exit 1: at least one violation not listed in known_findings.json; one line
        "VIOLATION property=<id> replay=<path>" per reported violation.
Exit 2: harness error (bad arguments, a replay that does not replay identically).
"""
import argparse
import importlib
import json
import os
import sys
import time

from . import explore as ex
from . import findings as fnd

HERE = os.path.dirname(os.path.dirname(os.path.abspath(__file__)))


def _module_for(pid):
    return "checks.%s" % pid.lower()


def _jsonable(o):
    try:
        import numpy as np

        if isinstance(o, np.generic):
            return o.item()
        if isinstance(o, np.ndarray):
            return o.tolist()
    except Exception:
        pass
    if isinstance(o, (set, frozenset)):
        return sorted(o)
    return repr(o)


def write_evidence(pid, mod, tier, seed, summ, unknown, known_hits):
    cov = dict(
        evaluations=summ["n"],
        distinct_nontrivial=len(summ["nt_states"]),
        rule=getattr(mod, "RULE", ""),
        samples=summ["samples"] or [],
        states=len(summ["states"]),
        transitions=summ["trans"],
        traces_validated_against_impl=summ["n"],
        exhaustive=bool(getattr(mod, "EXHAUSTIVE", True)),
        oracle_assertions=summ["nchecks"],
        outcome_classes=dict(sorted(summ["classes"].items(), key=lambda kv: (-kv[1], kv[0]))[:60]),
        distinct_outcome_classes=len(summ["classes"]),
        not_compared=dict(summ["skips"]),
        max_error_over_tolerance=summ["maxratio"],
        max_error_over_tolerance_case=summ["maxratio_case"],
        counters=dict(summ["counters"]),
        bounds=mod.bounds(tier, seed) if hasattr(mod, "bounds") else {},
        workers=summ.get("jobs"),
        explanation=(
            "Every case of the declared finite space was executed on the implementation imported from the "
            "repository working tree and compared with an independent reference model; there is no separate "
            "abstract model, so every explored case is itself a trace validated against the implementation."
        ),
        known_findings_matched=known_hits,
        repo=os.environ.get("VERIF_REPO", "/repo"),
    )
    ev = dict(
        property_id=pid,
        tier=tier,
        seed=int(seed),
        level=getattr(mod, "LEVEL", "model_checking"),
        coverage=cov,
        assumptions=list(getattr(mod, "ASSUMPTIONS", [])),
        wall_s=round(summ["wall"], 3),
        violations=len(unknown),
    )
    os.makedirs(os.path.join(HERE, "evidence"), exist_ok=True)
    path = os.path.join(HERE, "evidence", "%s.json" % pid)
    tmp = path + ".tmp"
    with open(tmp, "w") as fh:
        json.dump(ev, fh, indent=1, default=_jsonable, sort_keys=False)
        fh.write("\n")
    os.replace(tmp, path)
    return path


def do_replay(pid, mod, path):
    with open(path) as fh:
        rep = json.load(fh)
    case = rep["case"]
    if case is None:
        print("replay %s: %s (no single case: re-run the check)" % (path, "; ".join(rep.get("messages", []))))
        return 2
    obs = []
    for _ in range(2):
        rec = ex.run_one(mod, case)
        obs.append((rec.ok, tuple(rec.msgs)))
    if obs[0] != obs[1]:
        print("HARNESS-ERROR: replay of %s is not deterministic: %r vs %r" % (path, obs[0], obs[1]))
        return 2
    ok, msgs = obs[0]
    print("replay %s: %s" % (path, "property holds on this case" if ok else "VIOLATED"))
    for m in msgs:
        print("   ", m)
    if ok:
        return 0
    print("VIOLATION property=%s replay=%s" % (pid, path))
    return 1


def main(argv=None):
    ap = argparse.ArgumentParser()
    ap.add_argument("pid")
    ap.add_argument("--tier", default=os.environ.get("VERIF_TIER") or "quick", choices=["quick", "thorough"])
    ap.add_argument("--replay")
    ap.add_argument("--jobs", type=int, default=None)
    ap.add_argument("--count", action="store_true", help="only count the cases of the space")
    ap.add_argument("--no-evidence", action="store_true")
    a = ap.parse_args(argv)
    pid = a.pid.upper()
    try:
        seed = int(os.environ.get("VERIF_SEED", "0") or 0)
    except ValueError:
        seed = 0
    modname = _module_for(pid)
    mod = importlib.import_module(modname)
    if a.replay:
        return do_replay(pid, mod, a.replay)
    if a.count:
        n = sum(1 for _ in mod.cases(a.tier, seed))
        print("%s %s seed=%d cases=%d" % (pid, a.tier, seed, n))
        return 0
    t0 = time.time()
    try:
        summ = ex.explore(modname, a.tier, seed, a.jobs)
    except ex.ExplorationTimeout as exc:
        # a hang (or a slow-down by more than an order of magnitude) of the code under test on some case of the space is reported
        # as a violation: every case terminates within seconds on a tree where the property holds
        rdir = os.path.join(HERE, "replays", pid)
        os.makedirs(rdir, exist_ok=True)
        path = os.path.join(rdir, "timeout-%s.json" % a.tier)
        with open(path, "w") as fh:
            json.dump(dict(property=pid, tier=a.tier, seed=seed, case=None,
                           messages=["%s; on the unchanged tree this tier finishes in well under a tenth of that" % exc]), fh, indent=1)
        print("%s tier=%s seed=%d: %s" % (pid, a.tier, seed, exc))
        print("VIOLATION property=%s replay=%s" % (pid, path))
        return 1
    unknown = summ["viol"]
    hits = [dict(id=fid, count=n, what=fnd.describe(pid, fid)) for fid, n in sorted(summ["known"].items())]
    # replays for unknown violations
    rdir = os.path.join(HERE, "replays", pid)
    lines = []
    for v in unknown[:25]:
        os.makedirs(rdir, exist_ok=True)
        h = ex._digest(v["case"]).hex()
        path = os.path.join(rdir, "%s.json" % h)
        with open(path, "w") as fh:
            json.dump(dict(property=pid, index=v["index"], case=v["case"], messages=v["msgs"], tier=a.tier, seed=seed),
                      fh, indent=1, default=_jsonable)
        lines.append((path, v))
    nunknown_total = summ["nviol"]
    if not a.no_evidence:
        write_evidence(pid, mod, a.tier, seed, summ, unknown if nunknown_total == len(unknown) else [0] * nunknown_total,
                       [dict(id=h["id"], count=h["count"]) for h in hits])
    print(
        "%s tier=%s seed=%d cases=%d distinct_states=%d transitions=%d assertions=%d classes=%d "
        "not_compared=%d max_err/tol=%.3g violations=%d wall=%.1fs"
        % (pid, a.tier, seed, summ["n"], len(summ["states"]), summ["trans"], summ["nchecks"], len(summ["classes"]),
           sum(summ["skips"].values()), summ["maxratio"], summ["nviol"], time.time() - t0)
    )
    if summ["counters"]:
        print("   counters: " + ", ".join("%s=%d" % kv for kv in sorted(summ["counters"].items())))
    if summ["maxratio"] > 0.2:
        print("WARNING: head-room: largest observed error/tolerance ratio is %.3g (case %s)"
              % (summ["maxratio"], json.dumps(summ["maxratio_case"], default=_jsonable)[:300]))
    for h in hits:
        print("KNOWN-FINDING: property=%s %s (%d cases matched: %s)" % (pid, h["what"], h["count"], h["id"]))
    for path, v in lines:
        print("VIOLATION property=%s replay=%s" % (pid, path))
        print("    case #%d: %s" % (v["index"], json.dumps(v["case"], default=_jsonable)[:400]))
        for m in v["msgs"][:3]:
            print("    " + m.replace("\n", "\n    ")[:1500])
    if nunknown_total > len(lines):
        print("    ... %d further violations not written out" % (nunknown_total - len(lines)))
    return 1 if nunknown_total > 0 else 0


if __name__ == "__main__":
    sys.exit(main())
