"""
Known findings: genuine defects of the code under test that were recorded instead of repaired.

/verif/known_findings.json is committed and never written at run time.  Entries:

  {"id": "...", "status": "known", "property": "C17", "what": "<one sentence>",
   "keys": ["<failure key>", ...]}
  {"id": "...", "status": "fixed", "property": "C11", "commit": "<sha>", "what": "..."}

A violation is attributed to a *known* entry only if the failure key computed by
the check for that very case (Rec.check(..., fkey=...)) is listed in the entry's
"keys"; every other violation of the same property is reported.  "fixed" entries
suppress nothing.
"""
import json
import os

HERE = os.path.dirname(os.path.dirname(os.path.abspath(__file__)))
_cache = {}


def load(pid):
    if pid in _cache:
        return _cache[pid]
    path = os.path.join(HERE, "known_findings.json")
    out = []
    if os.path.exists(path):
        with open(path) as fh:
            data = json.load(fh)
        for e in data.get("findings", []):
            if e.get("property") == pid and e.get("status") == "known":
                e = dict(e)
                e["_keys"] = set(e.get("keys", []))
                out.append(e)
    _cache[pid] = out
    return out


def match(pid, fkey):
    """Return the id of the known finding that lists this failure key, or None."""
    if not isinstance(fkey, str):
        return None
    for e in load(pid):
        if fkey in e["_keys"]:
            return e["id"]
    return None


def describe(pid, fid):
    for e in load(pid):
        if e["id"] == fid:
            return e["what"]
    return ""
