"""Small helpers shared by the check modules."""
import itertools
import math
import warnings

import numpy as np


class Raised:
    """Wrapper for an exception raised by the code under test."""

    def __init__(self, exc):
        self.exc = exc

    def __repr__(self):
        return "Raised(%r)" % (self.exc,)


def call(rec, fn, *args, **kwargs):
    """Call into verde: counts one transition, returns the value or a Raised(exc)."""
    rec.trans()
    try:
        with warnings.catch_warnings():
            warnings.simplefilter("ignore")
            return fn(*args, **kwargs)
    except Exception as exc:  # noqa: BLE001
        return Raised(exc)


def call_w(rec, fn, *args, **kwargs):
    """Like call, but also returns the list of warnings (category name, message) emitted."""
    rec.trans()
    with warnings.catch_warnings(record=True) as wlist:
        warnings.simplefilter("always")
        try:
            val = fn(*args, **kwargs)
        except Exception as exc:  # noqa: BLE001
            val = Raised(exc)
    return val, [(w.category.__name__, str(w.message)) for w in wlist]


def raised(x):
    return isinstance(x, Raised)


def subsets(items, kmin, kmax):
    items = list(items)
    for k in range(kmin, kmax + 1):
        yield from itertools.combinations(items, k)


def ulp(x):
    x = abs(float(x))
    return math.ulp(x) if x > 0 else 5e-324


def bits(a):
    """Bytes of an array including NaN payloads, for before/after comparisons."""
    a = np.asarray(a)
    return (a.dtype.str, a.shape, a.tobytes())


def pick_frames(frames, tier, seed, nquick=1):
    """quick: the base frame (index 0) plus nquick frames selected by the seed; thorough: all."""
    frames = list(frames)
    if tier == "thorough" or len(frames) <= 1 + nquick:
        return frames
    rest = frames[1:]
    chosen = [frames[0]]
    for i in range(nquick):
        chosen.append(rest[(seed + i * 7) % len(rest)])
    out = []
    for f in chosen:
        if f not in out:
            out.append(f)
    return out


def represent(a, rep):
    """The same logical array (same values in C reading order) in another representation.

    C / F / T (transposed view) / view (strided, non-contiguous) / ro (read-only) / i8, i4 (integer dtype; values must be integral)
    / series (pandas, non-default index; 1-D only) / list."""
    a = np.asarray(a)
    if rep in (None, "C"):
        return np.ascontiguousarray(a)
    if rep == "F":
        return np.asfortranarray(a)
    if rep == "T":
        return np.ascontiguousarray(a.T).T
    if rep == "view":
        big = np.repeat(a.ravel(), 2)
        return big[::2].reshape(a.shape)
    if rep == "ro":
        b = np.array(a, copy=True)
        b.setflags(write=False)
        return b
    if rep in ("i8", "i4"):
        return a.astype(np.int64 if rep == "i8" else np.int32)
    if rep == "f4":
        return a.astype(np.float32)
    if rep == "series":
        import pandas as pd
        return pd.Series(np.array(a, copy=True).ravel(), index=np.arange(a.size)[::-1] * 2 + 3)
    if rep == "list":
        return a.tolist()
    raise ValueError(rep)


def array_args(kw, names=("region", "shape", "spacing")):
    """Copy of kw in which the tuple / list valued entries `names` are numpy arrays (shape: integers), and a snapshot of them."""
    import numpy as np

    out = dict(kw)
    for k in names:
        v = out.get(k)
        if isinstance(v, (tuple, list)):
            out[k] = np.array(v) if k == "shape" else np.array(v, dtype=float)
    snap = {k: (v.copy(), v.dtype) for k, v in out.items() if isinstance(v, np.ndarray) and k in names}
    return out, snap


def array_args_unchanged(kw, snap):
    import numpy as np

    return all(np.array_equal(kw[k], v) and kw[k].dtype == dt for k, (v, dt) in snap.items())


def permuted_series(a, salt=0):
    """pandas Series holding `a` in the same POSITIONAL order but with an integer index that is a non-trivial permutation of 0..n-1
    (what a column of a sorted / shuffled DataFrame looks like): label-based access differs from positional access."""
    import numpy as np
    import pandas as pd

    a = np.asarray(a)
    n = a.size
    idx = np.arange(n)[::-1].copy()
    if n > 2:
        idx = np.roll(idx, 1 + salt % (n - 1))
    return pd.Series(a.ravel(), index=idx)
