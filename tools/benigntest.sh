#!/bin/bash
# tools/benigntest.sh <dir with patch.diff> <check ids...>: a behaviour-preserving change must NOT raise an alarm.
sd="$1"; shift
d=$(mktemp -d /tmp/benign.XXXXXX)
git -C /repo archive HEAD | tar -x -C "$d"
if ! ( cd "$d" && patch -p1 -s < "$sd/patch.diff" ); then echo "PATCH DOES NOT APPLY: $sd"; rm -rf "$d"; exit 3; fi
for id in "$@"; do
  VERIF_REPO="$d" /verif/check "$id" --no-evidence 2>&1 | grep -E "^(C[0-9]+ tier|VIOLATION|    case|    [A-Za-z])" | cut -c1-420 | head -${LINES_MAX:-4}
done
rm -rf "$d"
