#!/bin/bash
# tools/mutrun.sh '<sed -i expression>' <file relative to repo> <check ids...>
# Copies /repo/verde to a scratch dir, applies the sed edit, runs the checks against the copy, removes it.
set -u
expr="$1"; file="$2"; shift 2
d=$(mktemp -d /tmp/mut.XXXXXX)
cp -r /repo/verde "$d/verde"
sed -i "$expr" "$d/$file"
if diff -q /repo/$file "$d/$file" >/dev/null; then echo "MUTATION DID NOT CHANGE FILE"; rm -rf "$d"; exit 3; fi
diff /repo/$file "$d/$file"
for id in "$@"; do
  VERIF_REPO="$d" /verif/check "$id" --no-evidence 2>&1 | grep -E "^(C[0-9]+ tier|VIOLATION|KNOWN|    case|WARNING)" | head -8
done
rm -rf "$d"
