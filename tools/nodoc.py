"""Print a python file without docstrings / blank lines, with line numbers (reading aid)."""
import sys,ast
for fn in sys.argv[1:]:
    print("===", fn)
    src=open(fn).read()
    tree=ast.parse(src)
    lines=src.split('\n')
    drop=set()
    for node in ast.walk(tree):
        if isinstance(node,(ast.FunctionDef,ast.ClassDef,ast.Module)):
            b=node.body
            if b and isinstance(b[0],ast.Expr) and isinstance(b[0].value,ast.Constant) and isinstance(b[0].value.value,str):
                for i in range(b[0].lineno, b[0].end_lineno+1): drop.add(i)
    for i,l in enumerate(lines,1):
        if i in drop or not l.strip(): continue
        print(f"{i}: {l}")
