#!/bin/bash
# Runs the pinned suite on a tree (default /repo) and reports whether all 138 stable tests pass.
tree="${1:-/repo}"
out=$(mktemp /tmp/pinned.XXXXXX.xml)

cd "$tree" && OMP_NUM_THREADS=1 OPENBLAS_NUM_THREADS=1 PYTHONPATH="$tree" /venv/bin/python -m pytest -ra -q -p no:cacheprovider --timeout=900 --continue-on-collection-errors --junitxml=$out >/tmp/pinned.log 2>&1
/venv/bin/python - "$out" <<'P'
import json,sys,xml.etree.ElementTree as ET
base=json.load(open('/root/.vp/BASELINE.json'))
stable=set(base['stable_pass'])
res={}
for tc in ET.parse(sys.argv[1]).getroot().iter('testcase'):
    name=tc.get('classname')+'::'+tc.get('name')
    bad=[c.tag for c in tc if c.tag in('failure','error','skipped')]
    res[name]='fail' if bad else 'pass'
missing=[t for t in stable if res.get(t)!='pass']
newpass=[t for t,v in res.items() if v=='pass' and t not in stable]
print("stable passing: %d/%d; newly passing (outside pinned set): %d; total pass %d fail %d"%(len(stable)-len(missing),len(stable),len(newpass),sum(v=='pass' for v in res.values()),sum(v=='fail' for v in res.values())))
for m in missing: print("  MISSING/FAILED:",m)
sys.exit(1 if missing else 0)
P
rc=$?
rm -f $out
exit $rc
