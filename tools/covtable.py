#!/usr/bin/env python3
"""Regenerates the coverage table of DESIGN.md (section 10.1) from /verif/evidence/*.json."""
import glob, json, re
rows = []
tot = 0.0
for f in sorted(glob.glob("/verif/evidence/C*.json")):
    d = json.load(open(f)); c = d["coverage"]
    extra = ", ".join("%s %s" % (v, k.replace("_", " ")) for k, v in sorted(c.get("counters", {}).items()))
    nc = sum(c.get("not_compared", {}).values())
    notes = "; ".join(x for x in [extra, ("%d not compared" % nc) if nc else "", ("max error/tolerance %.2g" % c["max_error_over_tolerance"]) if c.get("max_error_over_tolerance") else ""] if x)
    rows.append("| %s | %s | %d | %d | %d | %d | %.0f | %s |" % (d["property_id"], d["tier"], c["evaluations"], c["distinct_nontrivial"], c["transitions"], c["oracle_assertions"], d["wall_s"], notes))
    tot += d["wall_s"]
table = ("<!-- COV_TABLE -->\n| id | tier | cases | distinct non-trivial | calls into verde | oracle assertions | wall s | counters / notes |\n|---|---|---:|---:|---:|---:|---:|---|\n"
         + "\n".join(rows) + "\n\nSum of wall-clock times of this set of runs: %.0f s.\n<!-- /COV_TABLE -->" % tot)
p = "/verif/DESIGN.md"; s = open(p).read()
if "<!-- COV_TABLE -->" in s:
    s = re.sub(r"<!-- COV_TABLE -->.*?<!-- /COV_TABLE -->", lambda m: table, s, flags=re.S)
else:
    a = s.index("| id | cases | calls into verde | oracle assertions | notes |")
    b = s.index("### 10.2")
    s = s[:a] + table + "\n\n" + s[b:]
open(p, "w").write(s)
print("rows", len(rows), "total wall", tot)
