#!/usr/bin/env python3
"""Regenerates the table of seeded changes in DESIGN.md from /verif/seeded/*/meta.json."""
import glob, json, os, re
rows = []
for m in sorted(glob.glob("/verif/seeded/*/meta.json")):
    d = json.load(open(m))
    rows.append("| %s | %s | %s | %s | %s |" % (
        d["id"], d["property"], d["needs_to_manifest"].replace("|", "/"),
        "missed" if d["missed_by_first_version_of_check"] else "caught",
        ", ".join(d["detected_by"]) + ((" - " + d["strengthening"]) if d.get("strengthening") else "")))
n = len(rows); missed = sum("| missed |" in r for r in rows)
table = ("<!-- SEED_TABLE -->\n%d seeded changes kept; %d were reported by the first version of the property's check, %d were missed by it and are "
         "reported after the strengthening described in the last column (all %d are reported now).\n\n"
         "| seed | property | needs, to manifest | first version | reported by (and what was strengthened) |\n|---|---|---|---|---|\n" % (n, n - missed, missed, n)
         + "\n".join(rows) + "\n<!-- /SEED_TABLE -->")
p = "/verif/DESIGN.md"; s = open(p).read()
if "SEED_TABLE_PLACEHOLDER" in s:
    s = s.replace("SEED_TABLE_PLACEHOLDER", table)
else:
    s = re.sub(r"<!-- SEED_TABLE -->.*?<!-- /SEED_TABLE -->", lambda m: table, s, flags=re.S)
open(p, "w").write(s)
print(n, "seeds,", missed, "missed by first versions")
