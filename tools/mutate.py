#!/usr/bin/env python3
"""
Mutation sweep used to *evaluate* the checks (not to decide any property): generates first-order mutants of the
verde sources with a handful of AST operators, runs the checks that cover the mutated file against each mutant
(scratch copy, VERIF_REPO), and records which check reports it first.  Survivors are listed for manual triage
(equivalent mutant / outside every property / real gap).

    tools/mutate.py --list                     # count mutants per file
    tools/mutate.py --stride 7 --offset 0      # run every 7th mutant
    tools/mutate.py --file verde/chain.py      # all mutants of one file
Results are appended to /verif/_scratch/mutants-<tag>.jsonl (not committed; the summary goes to DESIGN.md).
"""
import argparse
import ast
import copy
import json
import os
import shutil
import subprocess
import sys
import tempfile
import time

REPO = "/repo"
FILES = {
    "verde/coordinates.py": ["C07", "C08", "C13", "C14", "C17", "C05", "C09", "C11"],
    "verde/utils.py": ["C10", "C18", "C13", "C15", "C11", "C05", "C08", "C12"],
    "verde/base/base_classes.py": ["C05", "C06", "C12", "C11", "C20"],
    "verde/base/utils.py": ["C12", "C04", "C20", "C18", "C05", "C02"],
    "verde/base/least_squares.py": ["C02", "C01", "C04"],
    "verde/spline.py": ["C03", "C01", "C02", "C12", "C04", "C20"],
    "verde/vector.py": ["C03", "C01", "C02", "C06", "C04", "C20"],
    "verde/trend.py": ["C03", "C01", "C02", "C04", "C20"],
    "verde/chain.py": ["C06", "C01", "C20"],
    "verde/neighbors.py": ["C15", "C01", "C04", "C20"],
    "verde/scipygridder.py": ["C03", "C01", "C04", "C05", "C20"],
    "verde/blockreduce.py": ["C09", "C10", "C06", "C20"],
    "verde/model_selection.py": ["C11", "C12", "C20"],
    "verde/mask.py": ["C15", "C16", "C20"],
    "verde/distances.py": ["C15", "C20"],
    "verde/projections.py": ["C13", "C16", "C20"],
    "verde/io.py": ["C19"],
    "verde/synthetic.py": ["C03", "C05", "C20"],
}
SKIP_FUNCS = {"greens_func_jit", "predict_numba", "jacobian_numba", "predict_2d_numba", "jacobian_2d_numba", "test", "dummy_jit",
              "parse_engine", "__init__"}
NAME_SWAPS = [("east", "north"), ("easting", "northing"), ("w", "e"), ("s", "n"), ("train", "test"), ("train_index", "test_index"),
              ("force_east", "force_north"), ("green_ee", "green_nn"), ("train_points", "test_points"), ("train_blocks", "test_blocks"),
              ("shape", "spacing"), ("start", "stop")]
CMP = {ast.Lt: ast.LtE, ast.LtE: ast.Lt, ast.Gt: ast.GtE, ast.GtE: ast.Gt, ast.Eq: ast.NotEq, ast.NotEq: ast.Eq}
BIN = {ast.Add: ast.Sub, ast.Sub: ast.Add, ast.Mult: ast.Div, ast.Div: ast.Mult, ast.FloorDiv: ast.Div}


class Collector(ast.NodeVisitor):
    """Enumerates mutation sites; each site is (kind, node id path index)."""

    def __init__(self):
        self.sites = []
        self.func = []

    def visit_FunctionDef(self, node):
        if node.name in SKIP_FUNCS:
            return
        self.func.append(node.name)
        body = node.body
        if body and isinstance(body[0], ast.Expr) and isinstance(getattr(body[0], "value", None), ast.Constant) and isinstance(body[0].value.value, str):
            body = body[1:]
        for st in body:
            self.visit(st)
        self.func.pop()

    def generic_visit(self, node):
        if not self.func and not isinstance(node, (ast.Module, ast.ClassDef)):
            # module-level code: only descend into classes / functions
            if isinstance(node, (ast.FunctionDef,)):
                return self.visit_FunctionDef(node)
            return
        fn = self.func[-1] if self.func else ""
        if isinstance(node, ast.Compare) and len(node.ops) == 1 and type(node.ops[0]) in CMP:
            self.sites.append(("cmp", node, fn))
        if isinstance(node, ast.BinOp) and type(node.op) in BIN:
            self.sites.append(("bin", node, fn))
        if isinstance(node, ast.BoolOp):
            self.sites.append(("bool", node, fn))
        if isinstance(node, ast.UnaryOp) and isinstance(node.op, ast.Not):
            self.sites.append(("not", node, fn))
        if isinstance(node, ast.Constant) and isinstance(node.value, (int, float)) and not isinstance(node.value, bool) and abs(node.value) <= 360:
            self.sites.append(("const", node, fn))
        if isinstance(node, ast.Subscript) and isinstance(node.slice, ast.Constant) and node.slice.value in (0, 1):
            self.sites.append(("index", node, fn))
        if isinstance(node, ast.Call):
            if node.keywords:
                for i in range(len(node.keywords)):
                    self.sites.append(("dropkw%d" % i, node, fn))
            if isinstance(node.func, ast.Attribute) and node.func.attr in ("copy", "ravel") and not node.args:
                self.sites.append(("uncall", node, fn))
            if isinstance(node.func, ast.Attribute) and node.func.attr == "ravel" and isinstance(node.func.value, ast.Name) and node.func.value.id == "np" and len(node.args) == 1:
                self.sites.append(("unravel", node, fn))
            if len(node.args) >= 2:
                self.sites.append(("swapargs", node, fn))
        if isinstance(node, ast.Name) and isinstance(node.ctx, ast.Load):
            for a, b in NAME_SWAPS:
                if node.id in (a, b):
                    self.sites.append(("name", node, fn))
        if isinstance(node, ast.Return) and isinstance(node.value, ast.Tuple) and len(node.value.elts) >= 2:
            self.sites.append(("rettuple", node, fn))
        if isinstance(node, ast.If):
            self.sites.append(("ifneg", node, fn))
        super().generic_visit(node)

    def visit_ClassDef(self, node):
        for st in node.body:
            if isinstance(st, ast.FunctionDef):
                self.visit_FunctionDef(st)


def apply(kind, node):
    """Mutate `node` in place; return description or None if not applicable."""
    if kind == "cmp":
        old = type(node.ops[0]).__name__
        node.ops[0] = CMP[type(node.ops[0])]()
        return "%s -> %s" % (old, type(node.ops[0]).__name__)
    if kind == "bin":
        old = type(node.op).__name__
        node.op = BIN[type(node.op)]()
        return "%s -> %s" % (old, type(node.op).__name__)
    if kind == "bool":
        node.op = ast.Or() if isinstance(node.op, ast.And) else ast.And()
        return "and <-> or"
    if kind == "not":
        node.op = ast.UAdd()
        node.operand = ast.Call(func=ast.Name(id="bool", ctx=ast.Load()), args=[node.operand], keywords=[])
        return "not removed"
    if kind == "const":
        v = node.value
        node.value = (v + 1) if isinstance(v, int) else (v * 2 if v else 1.0)
        return "constant %r -> %r" % (v, node.value)
    if kind == "index":
        v = node.slice.value
        node.slice = ast.Constant(value=1 - v)
        return "index %d -> %d" % (v, 1 - v)
    if kind.startswith("dropkw"):
        i = int(kind[6:])
        kw = node.keywords.pop(i)
        return "dropped keyword %s" % kw.arg
    if kind == "uncall":
        return None  # handled by parent replacement below (needs parent); skip
    if kind == "unravel":
        return None
    if kind == "swapargs":
        node.args[0], node.args[1] = node.args[1], node.args[0]
        return "swapped first two positional arguments"
    if kind == "name":
        for a, b in NAME_SWAPS:
            if node.id == a:
                node.id = b
                return "name %s -> %s" % (a, b)
            if node.id == b:
                node.id = a
                return "name %s -> %s" % (b, a)
    if kind == "rettuple":
        node.value.elts[0], node.value.elts[1] = node.value.elts[1], node.value.elts[0]
        return "swapped first two returned values"
    if kind == "ifneg":
        node.test = ast.UnaryOp(op=ast.Not(), operand=node.test)
        return "if condition negated"
    return None


def mutants_of(path):
    src = open(os.path.join(REPO, path)).read()
    tree = ast.parse(src)
    col = Collector()
    col.visit(tree)
    n = len(col.sites)
    for i in range(n):
        t2 = copy.deepcopy(tree)
        c2 = Collector()
        c2.visit(t2)
        kind, node, fn = c2.sites[i]
        desc = apply(kind, node)
        if desc is None:
            continue
        ast.fix_missing_locations(t2)
        try:
            new = ast.unparse(t2)
        except Exception:
            continue
        yield dict(file=path, func=fn, line=getattr(node, "lineno", 0), op=kind, desc=desc, index=i), new


def run_mutant(meta, new_src, tier="quick", with_pinned=False):
    d = tempfile.mkdtemp(prefix="mutant.")
    try:
        subprocess.run("git -C %s archive HEAD verde | tar -x -C %s" % (REPO, d), shell=True, check=True)
        # ast.unparse drops comments/formatting: mutate relative to the unparsed original so that the diff is only the mutation
        open(os.path.join(d, meta["file"]), "w").write(new_src)
        env = dict(os.environ, PYTHONPATH=d, OMP_NUM_THREADS="1", OPENBLAS_NUM_THREADS="1")
        p = subprocess.run(["/venv/bin/python", "-c", "import verde"], env=env, capture_output=True, text=True, cwd=d)
        if p.returncode:
            return dict(meta, status="import-error")
        killed = None
        t0 = time.time()
        for chk in FILES[meta["file"]]:
            p = subprocess.run(["/verif/check", chk, "--no-evidence", "--tier", tier], env=dict(os.environ, VERIF_REPO=d), capture_output=True, text=True)
            if p.returncode == 1:
                killed = chk
                break
            if p.returncode not in (0, 1):
                killed = chk + "(harness-exit-%d)" % p.returncode
                break
        return dict(meta, status="killed" if killed else "survived", by=killed, wall_s=round(time.time() - t0, 1))
    finally:
        shutil.rmtree(d, ignore_errors=True)


def main():
    ap = argparse.ArgumentParser()
    ap.add_argument("--list", action="store_true")
    ap.add_argument("--file")
    ap.add_argument("--stride", type=int, default=1)
    ap.add_argument("--offset", type=int, default=0)
    ap.add_argument("--tag", default="sweep")
    ap.add_argument("--limit", type=int, default=0)
    a = ap.parse_args()
    files = [a.file] if a.file else list(FILES)
    if a.list:
        tot = 0
        for f in files:
            n = sum(1 for _ in mutants_of(f))
            tot += n
            print(f, n)
        print("total", tot)
        return
    os.makedirs("/verif/_scratch", exist_ok=True)
    out = open("/verif/_scratch/mutants-%s.jsonl" % a.tag, "a")
    k = -1
    done = 0
    for f in files:
        for meta, new in mutants_of(f):
            k += 1
            if k % a.stride != a.offset:
                continue
            res = run_mutant(meta, new)
            out.write(json.dumps(res) + "\n")
            out.flush()
            print(res, flush=True)
            done += 1
            if a.limit and done >= a.limit:
                return


if __name__ == "__main__":
    main()
