NOTES = ("All checks execute the implementation imported from /repo's working tree (PYTHONPATH=/repo; pure Python, so a fresh "
         "interpreter is the rebuild). VERIF_SEED only selects which scale/offset frames a quick run adds to the base frame; "
         "no input is ever drawn at random. Known findings: /verif/known_findings.json.")
NOT_APPLICABLE = {}
MC = "model_checking"
reg("C07", MC, "bounded exhaustive enumeration of a rational (start, extent, spacing) lattice against an exact Fraction model",
    "Every case of a finite rational lattice of (start, extent, spacing | size, adjust, registration, meshgrid, extra_coords) is executed "
    "on the real functions and compared node by node with exact rational arithmetic; ties of extent/spacing are hit exactly and both "
    "neighbours accepted. A coverage statement over the lattice (all ratio types: dividing, non-dividing, .5 ties, larger than the "
    "extent), which is where off-by-one and rounding-direction defects live.",
    "Trusts Python Fractions and numpy float semantics; values between lattice nodes are represented by the absence of further branches "
    "in the code; 4-ulp node tolerance.", "DESIGN.md section 5, C07")
reg("C08", MC, "bounded exhaustive enumeration of lattice point clouds x block layouts against exact rational block edges",
    "Every node of a quarter-unit lattice covering the region and one block beyond it (edges, corners, outside points) is labelled by "
    "the real block_split for every region / shape / spacing / adjust / array form / dyadic frame of a finite family and compared with "
    "exact rational block membership (either neighbour on a shared edge, per-axis clamping outside). Labelling is a discrete claim, "
    "so an exact oracle over a lattice that hits every edge is the right strength.",
    "Trusts Fractions; only the cKDTree path can run (pykdtree is not installed).", "DESIGN.md section 5, C08")
reg("C17", MC, "exhaustive enumeration of the 5-degree (W, E) lattice with exact arithmetic modulo 360",
    "All representable (W, E) arcs of the 5-degree lattice (thorough: plus a shifted 2.5-degree lattice and integer/float32 dtypes) x "
    "latitude bands x coordinate forms are executed; returned bounds, longitudes and verde.inside membership of every lattice longitude "
    "are compared with exact modular arithmetic. The 175 seam pairs of finding D7 are reported as KNOWN-FINDING; any other pair fails the check.",
    "Arcs that fit neither convention and widths within 0.01 degree of 360 are outside the quantifier and counted as not compared.",
    "DESIGN.md section 5, C17")
