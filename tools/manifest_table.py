NOTES = ("All checks execute the implementation imported from /repo's working tree (PYTHONPATH=/repo; pure Python, so a fresh "
         "interpreter is the rebuild). VERIF_SEED only selects which scale/offset frames a quick run adds to the base frame; "
         "no input is ever drawn at random. Known findings: /verif/known_findings.json.")
NOT_APPLICABLE = {}
MC = "model_checking"
reg("C07", MC, "bounded exhaustive enumeration of a rational (start, extent, spacing) lattice against an exact Fraction model",
    "Every case of a finite rational lattice of (start, extent, spacing | size, adjust, registration, meshgrid, extra_coords) is executed "
    "on the real functions and compared node by node with exact rational arithmetic; ties of extent/spacing are hit exactly and both "
    "neighbours accepted. A coverage statement over the lattice (all ratio types: dividing, non-dividing, .5 ties, larger than the "
    "extent), which is where off-by-one and rounding-direction defects live.",
    "Trusts Python Fractions and numpy float semantics; values between lattice nodes are represented by the absence of further branches "
    "in the code; 4-ulp node tolerance.", "DESIGN.md section 5, C07")
