NOTES = ("All checks execute the implementation imported from /repo's working tree (PYTHONPATH=/repo; pure Python, so a fresh "
         "interpreter is the rebuild). VERIF_SEED only selects which scale/offset frames a quick run adds to the base frame; "
         "no input is ever drawn at random. Known findings: /verif/known_findings.json.")
NOT_APPLICABLE = {}
MC = "model_checking"
reg("C07", MC, "bounded exhaustive enumeration of a rational (start, extent, spacing) lattice against an exact Fraction model",
    "Every case of a finite rational lattice of (start, extent, spacing | size, adjust, registration, meshgrid, extra_coords) is executed "
    "on the real functions and compared node by node with exact rational arithmetic; ties of extent/spacing are hit exactly and both "
    "neighbours accepted. A coverage statement over the lattice (all ratio types: dividing, non-dividing, .5 ties, larger than the "
    "extent), which is where off-by-one and rounding-direction defects live.",
    "Trusts Python Fractions and numpy float semantics; values between lattice nodes are represented by the absence of further branches "
    "in the code; 4-ulp node tolerance.", "DESIGN.md section 5, C07")
reg("C08", MC, "bounded exhaustive enumeration of lattice point clouds x block layouts against exact rational block edges",
    "Every node of a quarter-unit lattice covering the region and one block beyond it (edges, corners, outside points) is labelled by "
    "the real block_split for every region / shape / spacing / adjust / array form / dyadic frame of a finite family and compared with "
    "exact rational block membership (either neighbour on a shared edge, per-axis clamping outside). Labelling is a discrete claim, "
    "so an exact oracle over a lattice that hits every edge is the right strength.",
    "Trusts Fractions; only the cKDTree path can run (pykdtree is not installed).", "DESIGN.md section 5, C08")
reg("C17", MC, "exhaustive enumeration of the 5-degree (W, E) lattice with exact arithmetic modulo 360",
    "All representable (W, E) arcs of the 5-degree lattice (thorough: plus a shifted 2.5-degree lattice and integer/float32 dtypes) x "
    "latitude bands x coordinate forms are executed; returned bounds, longitudes and verde.inside membership of every lattice longitude "
    "are compared with exact modular arithmetic. The 175 seam pairs of finding D7 are reported as KNOWN-FINDING; any other pair fails the check.",
    "Arcs that fit neither convention and widths within 0.01 degree of 360 are outside the quantifier and counted as not compared.",
    "DESIGN.md section 5, C17")
reg("C13", MC, "bounded exhaustive enumeration of dyadic lattices of points, regions, pads, seeds and NaN patterns against exact predicates",
    "get_region / inside / pad_region / scatter_points / project_region / maxabs / region validation are executed on every element of "
    "small explicit lattices (every bound, one step inside and outside, degenerate regions, every array form incl. Fortran order and "
    "strided views which exercise the preallocated out= buffers) and compared with exact closed-box arithmetic.",
    "project_region is compared exactly only for maps whose extrema lie on its 101-node sampling lattice; for others containment in "
    "the true box is required (the function cannot do better for an arbitrary callable).", "DESIGN.md section 5, C13")
reg("C14", MC, "bounded exhaustive enumeration of lattice clouds x window geometries; exact closed-square membership per window",
    "Every window of every rolling_window / expanding_window call over a finite family of clouds (full quarter-unit lattice; all k<=3 "
    "subsets of 9 markers), sizes, steps, regions, adjust modes and frames is compared point by point with the exact closed square "
    "around the returned centre; centres with the exact rational grid; joint coverage when step <= size; nesting of expanding windows.",
    "Only scipy's cKDTree path exists here; points within 4 ulp of an edge with inexact float difference may go either way.",
    "DESIGN.md section 5, C14")
reg("C18", MC, "bounded exhaustive enumeration of grid shapes / forms / variable counts with coordinate-encoding cell values",
    "All shapes {1..3}x{1..4} x coordinate forms x 0..4 variables x 0..3 extra coordinates x dims x dtypes; each cell value encodes "
    "(variable, row, column), so any transposition, flip or mis-pairing in make_xarray_grid / grid_to_table / meshgrid conversions "
    "changes an observed value; invalid inputs must raise.", "Exact equality on injective cell values.", "DESIGN.md section 5, C18")
reg("C19", "fault_enumeration", "exhaustive enumeration of well-formed files, wrapped layouts and every single header corruption",
    "Files from an independent writer in every combination of shape, region, blank subset, sentinel, formatting, dtype and source; "
    "every wrapped-row layout; every single header fault. The loaded grid must equal the file (or the corrupted file as read by an "
    "independent reader) or the call must raise; handles opened by the function must be closed on every path (counting wrapper "
    "around builtins.open).", "The reference writer follows verde's documented header convention; all-blank files accept either outcome.",
    "DESIGN.md section 5, C19")
reg("C09", MC, "bounded exhaustive enumeration of point placements on a block layout with member-identifying (power-of-two) data",
    "All multisets of up to 3 (thorough 4) occupied sites of a 2x2 (thorough also 3x2) block layout, in two input orders, x reductions "
    "x components x weights x spacing/shape x given/inferred region x centre/reduced coordinates x dropped/kept extra coordinate x 1-D/2-D "
    "input. Data are distinct powers of two, so each reduced value identifies exactly which points and which weights entered it; the "
    "oracle groups with a Python dict and reduces in exact rational arithmetic.",
    "pandas groupby trusted; quick crosses the data-path axis and the coordinate-path axis separately (both in full), thorough crosses them.",
    "DESIGN.md section 5, C09")
reg("C10", MC, "bounded exhaustive enumeration of block populations and variance vectors against exact rational weights",
    "BlockMean.filter on every placement of <= 3 (4) points plus every 5-point placement with populations (2,3),(3,2),(2,2,1) x components x "
    "weights x uncertainty x region; variance_to_weights on all 4680 vectors of length <= 4 over {0, 1e-16, 1e-15, 1e-14, .2, 1, 2, NaN} in "
    "array / tuple / 2-D / read-only / list form. Means, the three weighting rules, (0,1] range with a maximum of exactly 1, shape "
    "preservation and byte-wise input immutability are compared with exact arithmetic.",
    "Unweighted block variance may be ddof=0 or ddof=1, consistently (pandas-version dependent; the statement does not fix it).",
    "DESIGN.md section 5, C10")
reg("C11", MC, "bounded exhaustive enumeration of block-occupancy vectors x cross-validator parameters on the real split generators",
    "Every occupancy vector (0..3 points per cell, thorough 0..4) of the layouts 1x2..1x5, 2x2, 2x3 (thorough more) is realised as points and "
    "split by BlockKFold for every n_splits/shuffle/balance/seed/spec and by BlockShuffleSplit for every test_size/train_size/balancing/"
    "n_splits/seed of a finite menu; every yielded split is checked for partition, whole blocks, fold count / non-emptiness / disjointness / "
    "coverage, the balance bound or the equal-block fall-back, the prescribed number of test blocks, best-balanced candidate choice and "
    "reproducibility.", "sklearn KFold/ShuffleSplit trusted; candidate shuffles observed via a recording subclass patched into "
    "verde.model_selection (reported as not observed if a refactoring stops using that symbol).", "DESIGN.md section 5, C11")
reg("C03", MC, "exhaustive enumeration of a distance/direction/parameter lattice with a 50-digit decimal oracle per kernel entry",
    "Every entry of the public jacobian matrices of Spline and VectorSpline2D over a lattice of distances (0, every decade 1e-12..1e8, "
    "both sides of the r=1 branch switch and of r=e), directions, mindist and Poisson values is compared with the documented formula "
    "evaluated in 50-digit decimal arithmetic; predict with externally set parameters must equal jacobian @ parameters (so a "
    "self-consistent wrong kernel cannot hide behind a fit); translation invariance is asserted bitwise on dyadic coordinates; Trend "
    "monomials exactly on integers; CheckerBoard formula; Linear/Cubic bitwise against SciPy.",
    "Python's decimal module is the trusted high-precision evaluator; numba kernels not executable here.", "DESIGN.md section 5, C03")
reg("C01", MC, "bounded exhaustive enumeration of lattice point sets x frames x exact-interpolator configurations with a conditioning-aware oracle",
    "All k-subsets of small integer lattices under a family of scale / offset / jitter / array-shape frames, for every exact-interpolator "
    "configuration and every unit basis data vector (complete for gridders linear in the data), plus a conditioning ladder that walks cond "
    "from 1e2 to 1e11 and Trend degrees 0..4 on every monomial over all unisolvent subsets, evaluated also outside the data. The bound "
    "256 cond eps max|data| uses the condition number computed by an independent SVD; ill-conditioned cases are counted, not dropped.",
    "Small-scope hypothesis on point count (n <= 6; 25 for the tensor lattices of Trend); quick explores the base frame plus 2 seed-selected "
    "frames, thorough all 32.", "DESIGN.md section 5, C01")
reg("C02", MC, "bounded exhaustive enumeration of point sets x force layouts x damping x weights x basis data against an independent SVD solver",
    "verde's fitted predictions are compared at off-data queries with an independently assembled (own kernels, documented monomial order and "
    "block layout) and independently solved weighted damped least-squares problem in unit-variance column scaling, for every combination of "
    "a finite menu; two metamorphic relations (weight scaling, vanishing weight == datum removed) on top. Forward-error-aware tolerance "
    "(cond, residual term, squared cond for the normal-equation path of the damped solver).",
    "Problems whose error bound exceeds 1e-3 relative, and rank-deficient ones, are counted as not compared; quick rotates through a third / "
    "sixth of the point subsets by seed (scikit-learn's ~3 ms per fit sets the budget), thorough runs all.", "DESIGN.md section 5, C02")
reg("C04", MC, "bounded exhaustive enumeration of equivalent-input transformations (pairs of executions) per gridder and point subset",
    "For every gridder configuration and every k-subset of a general-position integer point set, the base execution is compared with every "
    "permutation of the points, every array layout / container, appended extra coordinates, integer dtypes of coordinates / data / query "
    "separately and together, every query shape, and (for gridders linear in the data) every pair of basis data vectors under three "
    "coefficient pairs. A raised exception in a transformed execution is a violation.",
    "Layout/dtype relations at 8 eps x scale; permutation/linearity relations use a conditioning-aware bound from the reference SVD "
    "(Cubic: 1e-4 x range under permutations, SciPy's gradient estimate is order dependent). quick rotates through subsets by seed.",
    "DESIGN.md section 5, C04")
reg("C05", MC, "bounded exhaustive enumeration of grid/profile/scatter arguments on a coordinate-encoding harness gridder",
    "A harness gridder whose prediction 1000 e + n (+ 1e6 k) encodes where it was evaluated is driven through grid(), profile() and "
    "scatter() for every combination of a finite menu of dyadic regions (given or inferred), shapes / spacings, adjust, registration, "
    "extra coordinates, projections, explicit 1-D / 2-D coordinates, names and component counts; each output cell is decoded and must "
    "equal the (projected) coordinates of its own row and column; coordinate vectors are compared with the exact rational reference; "
    "metadata, names and refusals are checked. Real gridders are cross-checked against their own predict.",
    "Dyadic coordinates make decoding an equality test; only the harness gridder's predict is trusted.", "DESIGN.md section 5, C05")
reg("C06", MC, "bounded exhaustive enumeration of step lists (operation sequences up to depth 3/4) against hand-threaded fresh instances; refit histories",
    "Every step list of length <= 3 (thorough 4) over a scalar and a 2-component alphabet (trends, damped spline, neighbours, block "
    "reductions, nested chain, vectors) x datasets x weights x data shape is fitted as a Chain and compared with a reference that threads "
    "(coordinates, data, weights) by hand through fresh instances of the same steps; residual identity, Chain.filter, region_, refit "
    "histories (fit a; fit b / filter after fit versus fresh), BaseGridder.filter object identity and residual shape, and Vector "
    "components versus separately fitted estimators with their own weights.",
    "The steps' own fit/predict/filter are trusted here (decided by C02, C09, C10, C15); compositions that cannot be executed by hand "
    "(too few points after reduction) are counted as not compared.", "DESIGN.md section 5, C06")
reg("C15", MC, "bounded exhaustive enumeration of integer data subsets x lattice queries x k x reductions with exact integer distance ties",
    "KNeighbors predictions at all 209 lattice queries for every k-subset (k <= 5/6) of 9 integer points, every k_neighbours and reduction, "
    "with power-of-two data (a value identifies the neighbour set); ties at the k-th neighbour are detected with exact integer squared "
    "distances and any admissible set accepted. median_distance (self excluded) and distance_mask (closed ball, projection applied to both "
    "point sets, array and grid forms, thresholds at every exactly representable distance and every midpoint) likewise.",
    "cKDTree path only; equality thresholds only at exactly representable distances.", "DESIGN.md section 5, C15")
reg("C16", MC, "bounded exhaustive enumeration of lattice point subsets x frames with exact integer hull predicates; grid/hole/projection menu",
    "convexhull_mask for every k-subset (k <= 4/5) of the 4x4 integer lattice with a non-degenerate hull at all 121 half-unit queries under "
    "scale/offset frames up to 1e7 and in array and grid form, against a monotone-chain hull with exact orientation tests; project_grid for "
    "every combination of grid shape, NaN-hole pattern, projection, interpolation method, antialias and requested region/spacing: name, "
    "dims, regular coordinates of the projected region (exact rational reference), NaN strictly outside / finite strictly inside the hull "
    "of the projected valid cells, value range, value preservation under affine projection without antialiasing, refusals.",
    "Qhull refusals are implementation-only failures (counted); boundary band of 3/4 cell with antialiasing.", "DESIGN.md section 5, C16")
reg("C12", MC, "exhaustive enumeration of configurations plus stateless exploration of all dask schedules / method-boundary interleavings under a controlled scheduler",
    "cross_val_score / score / train_test_split / SplineCV over a finite product of datasets, estimators, cross-validators and scorers, each score "
    "compared with an independently fitted fresh estimator on the training rows and scikit-learn's public metric on the weighted test rows, and "
    "required to differ from three wrong alternatives (non-vacuity). Delayed execution: the explorer replaces the dask scheduler, runs every task "
    "in its own thread under a baton and enumerates every interleaving at the fit/score boundary (iterative preemption bounding; all 90 schedules "
    "of 3 splits in thorough, bound 2 in quick) and every task order of the SplineCV graph; line-granular exploration (sys.settrace in the task "
    "threads) makes every executed line of every source file under verde/ a scheduling point - preemption bound 1 for Trend, KNeighbors and "
    "Spline tasks in quick, bound 2 (about 37 000 schedules per estimator, the bounded space dealt out to the workers) plus Vector, Chain and "
    "three tasks in thorough; a fake client enumerates every completion order and an environment-driven client every answer sequence with 1 "
    "(thorough 2) deviations; the caller reconfiguring the estimator between graph construction and computation is a further event. "
    "A failing schedule is replayed twice before it is reported.",
    "Interleavings under the GIL at line granularity of the library's Python code (not inside numpy / BLAS calls); a real distributed cluster "
    "is out of reach (fake clients instead).",
    "DESIGN.md section 5, C12, section 2 (E3) and section 10.1 / 10.4")
reg("C20", MC, "explicit-state breadth-first search over estimator call histories (depth 3/4) + exhaustive catalogue of call templates x array-slot variants",
    "Every public callable and estimator method is called from valid templates with each array argument writable / read-only / non-contiguous: "
    "inputs must be byte-wise unchanged and results bitwise identical. For 13 estimator specs every history up to depth 3 (thorough 4) over the "
    "event alphabet {fit on three datasets, predict, filter, grid, clone, params round trip, caller overwrites its arrays} is replayed on a "
    "fresh estimator and its fingerprint compared with that of the shortest history with the same abstract state (differential oracle, no "
    "hand-written expected values). Every single inconsistency of a list of ~100 must raise; predict/grid/score/profile/scatter before fit must raise.",
    "Fingerprints are rounded predictions + region_ + parameters; 'caller overwrites' is not applied to Linear/Cubic (SciPy keeps references).",
    "DESIGN.md section 5, C20 and section 2 (E2)")
