#!/usr/bin/env python3
"""Re-runs every kept seeded change against the checks recorded as detecting it (quick tier) and writes seeded/RESULTS.json.
Each patch is applied to a scratch export of /repo HEAD (never in /repo)."""
import glob, json, os, subprocess, sys, tempfile, shutil, time
out = {}
only = sys.argv[1:]
for m in sorted(glob.glob("/verif/seeded/*/meta.json")):
    d = json.load(open(m))
    if only and d["id"] not in only and d["property"] not in only:
        continue
    sd = os.path.dirname(m)
    tmp = tempfile.mkdtemp(prefix="allseeds.")
    try:
        subprocess.run("git -C /repo archive HEAD verde | tar -x -C %s" % tmp, shell=True, check=True)
        r = subprocess.run("patch -p1 -s < %s/patch.diff" % sd, shell=True, cwd=tmp)
        if r.returncode:
            out[d["id"]] = dict(error="patch does not apply")
            continue
        res = {}
        for chk in d["detected_by"]:
            t0 = time.time()
            p = subprocess.run(["/verif/check", chk, "--no-evidence"], env=dict(os.environ, VERIF_REPO=tmp), capture_output=True, text=True)
            nviol = sum(1 for l in p.stdout.splitlines() if l.startswith("VIOLATION"))
            res[chk] = dict(exit=p.returncode, violation_lines=nviol, wall_s=round(time.time() - t0, 1))
        out[d["id"]] = res
        print(d["id"], res, flush=True)
    finally:
        shutil.rmtree(tmp, ignore_errors=True)
if not only:
    json.dump(out, open("/verif/seeded/RESULTS.json", "w"), indent=1, sort_keys=True)
bad = [k for k, v in out.items() if "error" in v or not any(c.get("exit") == 1 for c in v.values())]
print("seeds:", len(out), "not detected by any listed check:", bad)
sys.exit(1 if bad else 0)
