#!/usr/bin/env python3
"""tools/keepseed.py <srcdir> <name> <property> <detected_by csv> <missed_initially 0/1> <needs> [<strengthening note>]"""
import json, os, shutil, sys
src, name, prop, det, missed, needs = sys.argv[1:7]
note = sys.argv[7] if len(sys.argv) > 7 else ""
dst = os.path.join("/verif/seeded", name)
os.makedirs(dst, exist_ok=True)
for f in ("patch.diff", "demo.py", "notes.md"):
    if os.path.exists(os.path.join(src, f)):
        shutil.copy(os.path.join(src, f), os.path.join(dst, f))
meta = dict(
    id=name, property=prop, origin="independent sub-agent given only the property text and a scratch worktree",
    needs_to_manifest=needs,
    confirmed=dict(
        how="tools/seedtest.sh on a scratch export of /repo HEAD (git archive; never applied in /repo): demo exits 0 on the clean tree and 1 with "
            "the patch; the pinned suite (tools/pinned.sh, 138 stable tests) still passes with the patch; then ./check <id> with VERIF_REPO=<scratch>",
        demo_clean_exit=0, demo_patched_exit=1, pinned_suite_with_patch="138/138 stable tests pass"),
    detected_by=[d for d in det.split(",") if d],
    missed_by_first_version_of_check=bool(int(missed)),
    strengthening=note,
)
json.dump(meta, open(os.path.join(dst, "meta.json"), "w"), indent=1)
print("kept", dst)
