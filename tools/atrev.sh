#!/bin/bash
# tools/atrev.sh <git rev of /repo> <check ids...>  : run checks against an exported revision (scratch copy removed afterwards)
rev="$1"; shift
d=$(mktemp -d /tmp/rev.XXXXXX)
git -C /repo archive "$rev" verde | tar -x -C "$d"
for id in "$@"; do
  VERIF_REPO="$d" /verif/check "$id" --no-evidence 2>&1 | grep -E "^(C[0-9]+ tier|VIOLATION|KNOWN|    case|WARNING)" | cut -c1-330 | head -${LINES_MAX:-6}
done
rm -rf "$d"
