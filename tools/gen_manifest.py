#!/usr/bin/env python3
"""Regenerates /verif/MANIFEST.json from the table below (kept valid at all times)."""
import json, os, sys
HERE = os.path.dirname(os.path.dirname(os.path.abspath(__file__)))
ALL = ["C%02d" % i for i in range(1, 21)]

# id -> (category, technique, text, note, design_ref)
CHECKS = {}
def reg(pid, category, technique, text, note, ref):
    CHECKS[pid] = (category, technique, text, note, ref)

exec(open(os.path.join(HERE, "tools", "manifest_table.py")).read())

checks = []
for pid in ALL:
    if pid not in CHECKS or not os.path.exists(os.path.join(HERE, "checks", pid.lower() + ".py")):
        continue
    cat, tech, text, note, ref = CHECKS[pid]
    checks.append(dict(
        property_id=pid,
        quick_cmd="./check %s --tier quick" % pid,
        thorough_cmd="./check %s --tier thorough" % pid,
        evidence_file="/verif/evidence/%s.json" % pid,
        replay_cmd_template="./check %s --replay {path}" % pid,
        engine="mc",
        level_claimed=dict(category=cat, text=text + " The complete list of axes of the explored space (representations, parameter routes, magnitudes, "
                           "sizes, history events added during the seeding rounds) is the RULE string of checks/%s.py, which every run copies into "
                           "the evidence file (coverage.rule)." % pid.lower(), design_ref=ref),
        level_note=note,
        technique=tech,
    ))
claimed = {c["property_id"] for c in checks}
na = [dict(property_id=p, reason=NOT_APPLICABLE.get(p, "check not built yet in this round; see DESIGN.md section 5 for its design")) for p in ALL if p not in claimed]
man = dict(
    version=1,
    setup_cmd="./setup.sh",
    hooks=dict(guard="VERDE_VERIF", enable="no source hooks are needed: every seam (estimator subclasses, dask scheduler callable, builtins.open wrapper) is reachable from outside; ./check exports VERDE_VERIF=1 for form",
               baseline_off_cmd="cd /repo && /venv/bin/python -m pytest -ra -q -p no:cacheprovider --timeout=900 --continue-on-collection-errors",
               source_commits=[], add_only=True),
    engines=[dict(name="mc", path="/verif/mc", serves_properties=sorted(claimed),
                  kind_free_text="hand-written bounded-exhaustive explorers in Python: E1 case-space enumeration with exact reference models, E2 breadth-first search over estimator call histories, E3 enumeration of dask task orders, method-boundary and line-granular interleavings (iterative preemption bounding) and deviation-bounded environment answers; 16 worker processes, static sharding by case index")],
    checks=checks,
    notes=NOTES,
    not_applicable=na,
)
json.dump(man, open(os.path.join(HERE, "MANIFEST.json"), "w"), indent=1)
print("claimed:", sorted(claimed), "not claimed:", [x["property_id"] for x in na])
