#!/bin/bash
# tools/seedtest.sh <dir with patch.diff and demo.py> <check ids...>
# Confirms a seeded change on a scratch export of /repo HEAD (never in /repo itself):
#   demo passes on the clean tree, fails with the patch; pinned suite still passes with the patch; runs the given checks against it.
sd="$1"; shift
d=$(mktemp -d /tmp/seedtest.XXXXXX)
git -C /repo archive HEAD | tar -x -C "$d"
( cd "$d" && PYTHONPATH="$d" timeout 600 /venv/bin/python "$sd/demo.py" >"$d.clean.log" 2>&1 ); rc_clean=$?
if ! ( cd "$d" && patch -p1 -s < "$sd/patch.diff" ); then echo "PATCH DOES NOT APPLY"; rm -rf "$d"; exit 3; fi
( cd "$d" && PYTHONPATH="$d" timeout 600 /venv/bin/python "$sd/demo.py" >"$d.patched.log" 2>&1 ); rc_patched=$?
echo "demo: clean rc=$rc_clean patched rc=$rc_patched ($(tail -1 "$d.patched.log" | cut -c1-160))"
if [ -z "$SKIP_PINNED" ]; then /verif/tools/pinned.sh "$d" | head -3; fi
for id in "$@"; do
  VERIF_REPO="$d" /verif/check "$id" --no-evidence 2>&1 | grep -E "^(C[0-9]+ tier|VIOLATION|    case|   [A-Za-z])" | cut -c1-260 | head -${LINES_MAX:-5}
done
rm -rf "$d" "$d.clean.log" "$d.patched.log"
