import json,sys
for l in open('/verif/properties.jsonl'):
    p=json.loads(l)
    if p['id']==sys.argv[1]:
        print("Title: %s\n\nStatement: %s\n\nQuantifier: %s\n\nWhy the existing tests cannot settle it: %s\n\nFiles it is anchored in: %s" % (p['title'],p['statement'],p['quantifier']['text'],p['why_tests_cant'],", ".join(p['anchors']['files'])))
