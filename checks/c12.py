"""
C12  Scores come from models fitted on training data only, with the stated metric.

E1 over datasets x estimators x cross-validators x scorers, E3 (mc.schedules) over the schedules of
the dask graphs that cross_val_score(delayed=True) and SplineCV(delayed=True) build.
"""
import itertools
import warnings

import numpy as np

from mc import schedules as S
from mc.util import call, raised, permuted_series

ID = "C12"
LEVEL = "model_checking"
RULE = (
    "cross_val_score / score: datasets of 10 and 12 points on a 2x4 block layout (scalar and 2-component, weights none / distinct with test "
    "weights different from train weights, data = trend + point-specific perturbation so that no model fits perfectly) x estimator {Trend(0), "
    "Trend(1), Spline(damping), KNeighbors(2), Vector[Trend(1), Trend(0)]} x cv {default, KFold(2), KFold(3), ShuffleSplit, BlockKFold, "
    "BlockShuffleSplit} x scoring {None, r2, neg_mean_squared_error, neg_mean_absolute_error, make_scorer callable} x execution {serial, "
    "fake client in every submission-completion order, dask.delayed under EVERY interleaving of the per-split tasks at the fit/score "
    "boundary (preemption bound 2 in quick for 3 splits = all 90 schedules when unbounded), and line-granular interleavings of verde's own fit_score / score_estimator code with preemption bound 1}. train_test_split: datasets x {plain, spacing, "
    "shape} x seeds 0..5 x test sizes. SplineCV: every permutation of the damping grid {1e-4, 1e-1, 1e2} x mindists x cv x delayed "
    "(explorer installed as the dask scheduler, every task order / bounded interleavings). Non-trivial: the three wrong alternatives "
    "(scored on train rows, fitted on all rows, unweighted) differ from the right score by > 1e-3."
    " Added axes: mixed-layout 2-D input, permuted-index Series, dataset at UTM offsets, a cross-validator with train != complement(test), a splitter whose draws differ from call to call (scores must come from one draw), exact-zero weights, a make_scorer object carrying a metric keyword, environment-driven client (deviation bound 1 / 2), caller reconfiguring the estimator between graph construction and computation, line-granular interleavings over every line of the library (bound 1 quick; bound 2 and Vector / Chain / three tasks thorough)."
)
ASSUMPTIONS = ["scikit-learn's public metric functions are the metric oracle; the cv object's own split() provides the splits",
               "interleavings are explored at method boundaries of the estimator (fit / score) under the GIL; a real distributed client is replaced "
               "by a fake client whose completion order the explorer controls"]


def bounds(tier, seed):
    return dict(datasets=2, estimators=5, cvs=6, scorers=5, preemption_bound_cvs=2 if tier == "quick" else None,
                splinecv_bound=1 if tier == "quick" else 2)


EST = ["T0", "T1", "S", "K2", "V"]
CVS = ["default", "kfold2", "kfold3", "shuffle", "blockkfold", "blockshuffle", "shuffle_tt"]
SCORERS = [None, "r2", "neg_mean_squared_error", "neg_mean_absolute_error", "callable", "callable_kw"]


def cases(tier, seed):
    for ds in (0, 1):
        for est in EST:
            for w in (False, True):
                for cv in CVS:
                    for sc in SCORERS:
                        yield dict(kind="cvs", ds=ds, est=est, w=w, cv=cv, scoring=SCORERS.index(sc), mode="serial")
        for est in EST:
            for w in (False, True):
                yield dict(kind="score", ds=ds, est=est, w=w)
                # a splitter whose draws differ from call to call: every score must pair the training and the test rows of ONE draw
                yield dict(kind="cvs", ds=ds, est=est, w=w, cv="stateful", scoring=0, mode="serial")
            # weights that are exactly zero for some rows (round 9, seed C12-17: zero-weight training rows dropped before the fit - they still
            # are training rows: a Spline places forces there)
            for cv in ("kfold3", "blockkfold"):
                yield dict(kind="cvs", ds=ds, est=est, w="zero", cv=cv, scoring=0, mode="serial")
        # 2-D gridded input whose arrays do not share one memory layout (C-ordered coordinates, Fortran-ordered data, transposed
        # weights): the row selection must follow the logical (C) order of every array. Added after seed C12-2.
        for est in EST:
            for cv in ("kfold3", "blockkfold"):
                yield dict(kind="cvs", ds=ds, est=est, w=True, cv=cv, scoring=0, mode="serial", shape="2dmix")
                yield dict(kind="cvs", ds=ds, est=est, w=True, cv=cv, scoring=0, mode="serial", shape="series")
    for est in EST:
        for w in (False, True):
            for cv in ("kfold3", "blockkfold_s", "blockshuffle_s"):
                yield dict(kind="cvs", ds=2, est=est, w=w, cv=cv, scoring=0, mode="serial")
    for est in EST:
        for cv in ("kfold3", "blockkfold", "shuffle"):
            for sc in (None, "neg_mean_squared_error"):
                yield dict(kind="cvs", ds=0, est=est, w=True, cv=cv, scoring=SCORERS.index(sc), mode="client")
                yield dict(kind="cvs", ds=0, est=est, w=True, cv=cv, scoring=SCORERS.index(sc), mode="delayed",
                           bound=(2 if tier == "quick" else None))
    # environment event "the caller reconfigures the estimator it passed in" between the call that builds the delayed graph (or
    # submits to the client) and the moment the results are computed: the scores are those of the estimator AS PASSED, which is what
    # a serial call made at the same moment returns (seed C12-7: the per-split clone moved into the task)
    for est in EST + ["CH"]:
        for cv in ("kfold2", "kfold3"):
            yield dict(kind="cvs", ds=0, est=est, w=True, cv=cv, scoring=0, mode="client", reconf=True)
            yield dict(kind="cvs", ds=0, est=est, w=True, cv=cv, scoring=0, mode="delayed", bound=1, reconf=True)
    # line-granular interleavings (every executed line of verde's fit_score / score_estimator / score is a scheduling point,
    # preemption bound 1): finds races between a task's steps without hand-placed points (seed C12-r2_1: a scorer/dummy-estimator
    # pair shared between tasks through a cache)
    lines_cases = [("T1", "kfold3", None), ("T0", "kfold2", "callable")]
    if tier == "thorough":
        lines_cases += [(est, cv, sc) for est in EST for cv in ("kfold3", "blockkfold") for sc in (None, "neg_mean_squared_error")]
    for est, cv, sc in lines_cases:
        yield dict(kind="cvs", ds=0, est=est, w=True, cv=cv, scoring=SCORERS.index(sc), mode="delayed", bound=1, lines=True)
    # the same, with the estimator's own numerical code traced as well (fit / predict / jacobian / least_squares of Trend in quick;
    # of the Spline and KNeighbors in thorough): races on module-level scratch state inside a gridder
    # EVERY executed line of EVERY verde source file is a scheduling point ("all"): shared module-level state anywhere in the library
    deep = [("T1", "kfold2"), ("K2", "kfold2"), ("S", "kfold2")] + ([("V", "kfold2"), ("CH", "kfold2"), ("T1", "kfold3")] if tier == "thorough" else [])
    for est, cv in deep:
        yield dict(kind="cvs", ds=1, est=est, w=True, cv=cv, scoring=0, mode="delayed", bound=1, lines="all")
    if tier == "thorough":
        # preemption bound 2 over every line of the library for two Trend / KNeighbors / Spline tasks; the subtrees below the schedules
        # with one deviation are dealt out to 16 (Spline: 32) shares so that the workers divide the space between them
        for est, m in (("T1", 16), ("K2", 16), ("S", 32)):
            for r in range(m):
                yield dict(kind="cvs", ds=1, est=est, w=True, cv="kfold2", scoring=0, mode="delayed", bound=2, lines="all", part=[r, m])
    for ds in (0, 1):
        for mode in ("plain", "spacing", "shape"):
            for sd in range(6):
                for ts in (0.25, 0.5, 3):
                    for vec in (False, True):
                        for w in (False, True):
                            yield dict(kind="tts", ds=ds, mode=mode, seed=sd, test_size=ts, vec=vec, w=w)
                            if sd == 0 and w:
                                yield dict(kind="tts", ds=ds, mode=mode, seed=sd, test_size=ts, vec=vec, w=w, shape="2dmix")
                            if sd == 1:
                                yield dict(kind="tts", ds=ds, mode=mode, seed=sd, test_size=ts, vec=vec, w=w, shape="series")
    for perm in itertools.permutations([1e-4, 1e-1, 1e2]):
        for mind in ("default", "two"):
            for cv in ("default", "kfold2", "blockkfold", "shuffle_tt"):     # shuffle_tt: training rows are NOT everything outside the test rows
                for delayed in (False, True):
                    for sc in (None, "neg_mean_absolute_error"):
                        if sc is not None and (mind == "two" or cv == "default"):
                            continue
                        yield dict(kind="splinecv", dampings=list(perm), mind=mind, cv=cv, delayed=delayed, scoring=sc)
    # the deprecated client= path of SplineCV, with a fake client completing the submitted searches in every order
    for perm in itertools.permutations([1e-4, 1e-1, 1e2]):
        for cv in ("kfold2", "blockkfold"):
            yield dict(kind="splinecv", dampings=list(perm), mind="default", cv=cv, delayed=False, scoring=None, client=True)
    # ... and with an environment-driven client: at every submit / result the environment may let another pending search finish
    # (deviation bound 1 in quick, 2 in thorough); six candidates, so that a bounded number of searches "in flight" matters
    for perm in ([1e-4, 1e-1, 1e2, 1e-2, 1.0, 1e-3], [1e2, 1.0, 1e-1, 1e-2, 1e-3, 1e-4]):
        yield dict(kind="splinecv_env", dampings=perm, cv="kfold2", bound=1 if tier == "quick" else 2)
    yield dict(kind="splinecv_sched", dampings=[1e-1, 1e-4], cv="kfold2", bound=0)
    yield dict(kind="splinecv_sched", dampings=[1e2, 1e-1], cv="kfold2", bound=0)
    yield dict(kind="splinecv_sched", dampings=[1e2, 1e-4], cv="kfold2", bound=1)
    if tier == "thorough":
        yield dict(kind="splinecv_sched", dampings=[1e-4, 1e2], cv="kfold2", bound=1, lines=True)
        yield dict(kind="splinecv_sched", dampings=[1e-1, 1e-4], cv="kfold2", bound=2)
        yield dict(kind="splinecv_sched", dampings=[1e-4, 1e-1, 1e2], cv="kfold2", bound=0)


# --------------------------------------------------------------------------------- fixtures
def dataset(i):
    if i == 2:
        # dataset 0 moved to projected-coordinate magnitudes (the data keep their values; block layouts keep their unit cells)
        e, n, d, w = dataset(0)
        return e + 500000.0, n + 7400000.0, d, w
    if i == 0:
        pts = [(0.2, 0.3), (0.7, 0.6), (1.3, 0.4), (2.6, 0.2), (2.2, 0.7), (3.5, 0.5), (0.5, 1.4), (1.6, 1.7), (1.2, 1.2), (2.8, 1.6), (3.3, 1.3), (3.8, 1.9)]
    else:
        pts = [(0.1, 0.1), (3.9, 1.9), (1.5, 0.5), (1.4, 0.9), (1.7, 0.2), (2.5, 1.5), (0.5, 1.5), (0.6, 1.2), (3.4, 0.4), (2.3, 0.8)]
    e = np.array([p[0] for p in pts]); n = np.array([p[1] for p in pts])
    k = np.arange(e.size)
    d0 = 3.0 * e - 2.0 * n + 0.8 * e * n + ((k * 7) % 5 - 2) * 0.9 + 10.0
    d1 = -1.0 * e + 4.0 * n + ((k * 3) % 7 - 3) * 0.6 - 5.0
    w0 = 1.0 + ((k * 5) % 4) * 1.5
    w1 = 6.0 - ((k * 2) % 3) * 2.0
    return e, n, (d0, d1), (w0, w1)


def _instrument(cls):
    class Instr(cls):
        def fit(self, *a, **k):
            r = super().fit(*a, **k)
            S.point("fitted")
            return r
    Instr.__name__ = cls.__name__
    Instr.__qualname__ = cls.__qualname__
    return Instr


_ICACHE = {}


def make_est(key, instrumented=False):
    import verde as vd

    def C(cls):
        if not instrumented:
            return cls
        if cls not in _ICACHE:
            _ICACHE[cls] = _instrument(cls)
        return _ICACHE[cls]

    with warnings.catch_warnings():
        warnings.simplefilter("ignore")
        if key == "T0":
            return C(vd.Trend)(0)
        if key == "T1":
            return C(vd.Trend)(1)
        if key == "S":
            return C(vd.Spline)(damping=1e-2)
        if key == "K2":
            return C(vd.KNeighbors)(k=2)
        if key == "V":
            return C(vd.Vector)([vd.Trend(1), vd.Trend(0)])
        if key == "CH":
            return C(vd.Chain)([("trend", vd.Trend(1)), ("spline", vd.Spline(damping=1e-2))])
    raise ValueError(key)


def _reconfigure(est, key):
    """The caller changes the parameters of the estimator it handed over (other degree / damping / k / first step or component)."""
    if key in ("T0", "T1"):
        est.set_params(degree=est.degree + 2)
    elif key == "S":
        est.set_params(damping=1e3)
    elif key == "K2":
        est.set_params(k=1)
    elif key == "V":
        est.components[0].set_params(degree=3)
    elif key == "CH":
        est.steps[0][1].set_params(degree=3)
    else:
        raise ValueError(key)


class StatefulCV:
    """A splitter that is NOT reproducible across calls (like any scikit-learn splitter given a RandomState instance or None): the k-th call
    of split() draws ShuffleSplit(random_state=100 + k).  frozen=k always replays draw k (for the reference).  Round 8, seed C12-16."""

    def __init__(self, frozen=None):
        self.calls, self.frozen = 0, frozen

    def get_n_splits(self, X=None, y=None, groups=None):
        return 2

    def split(self, X, y=None, groups=None):
        from sklearn.model_selection import ShuffleSplit

        k = self.frozen if self.frozen is not None else self.calls
        self.calls += 1
        yield from ShuffleSplit(n_splits=2, test_size=0.3, random_state=100 + k).split(X)


def make_cv(key):
    import verde as vd
    from sklearn.model_selection import KFold, ShuffleSplit

    if key == "stateful":
        return StatefulCV()
    if key == "default":
        return None
    if key == "kfold2":
        return KFold(2)
    if key == "kfold3":
        return KFold(3)
    if key == "shuffle":
        return ShuffleSplit(n_splits=2, test_size=0.3, random_state=3)
    if key == "blockkfold":
        return vd.BlockKFold(shape=(2, 4), n_splits=2, shuffle=True, random_state=1)
    if key == "shuffle_tt":
        # train_size + test_size < 1: some rows are in neither set (seed C12-12: folds replayed as "complement of the test set")
        return ShuffleSplit(n_splits=2, test_size=0.3, train_size=0.4, random_state=5)
    if key == "blockkfold_s":
        return vd.BlockKFold(spacing=1.0, n_splits=2, shuffle=True, random_state=1)
    if key == "blockshuffle_s":
        return vd.BlockShuffleSplit(spacing=1.0, n_splits=2, test_size=0.3, random_state=2)
    if key == "blockshuffle":
        return vd.BlockShuffleSplit(shape=(2, 4), n_splits=2, test_size=0.3, random_state=2)
    raise ValueError(key)


def make_scoring(i):
    from sklearn.metrics import make_scorer, median_absolute_error

    sc = SCORERS[i]
    if sc == "callable":
        return make_scorer(median_absolute_error, greater_is_better=False)
    if sc == "callable_kw":
        # a scorer that carries a keyword argument of its metric (round 9, seed C12-18: the kwargs stored by make_scorer dropped)
        from sklearn.metrics import mean_pinball_loss
        return make_scorer(mean_pinball_loss, greater_is_better=False, alpha=0.9)
    return sc


def metric(i, y, p, w):
    from sklearn import metrics as M

    sc = SCORERS[i]
    if sc in (None, "r2"):
        return M.r2_score(y, p, sample_weight=w)
    if sc == "neg_mean_squared_error":
        return -M.mean_squared_error(y, p, sample_weight=w)
    if sc == "neg_mean_absolute_error":
        return -M.mean_absolute_error(y, p, sample_weight=w)
    if sc == "callable_kw":
        return -M.mean_pinball_loss(y, p, sample_weight=w, alpha=0.9)
    return -M.median_absolute_error(y, p, sample_weight=w)


def reference_scores(est_key, coords, data, weights, cv, scoring_i, n_rows):
    """Independent computation: for each split of the same cv, fresh estimator on the train rows only."""
    from sklearn.model_selection import KFold

    if cv is None:
        cv = KFold(shuffle=True, random_state=0, n_splits=5)
    X = np.column_stack([coords[0].ravel(), coords[1].ravel()])
    comps = list(data) if isinstance(data, tuple) else [data]
    wts = [None] * len(comps) if weights is None else (list(weights) if isinstance(weights, tuple) else [weights])
    out = dict(right=[], on_train=[], fit_all=[], unweighted=[])
    for tr, te in cv.split(X):
        def fitpred(rows_fit, rows_eval):
            est = make_est(est_key)
            c = (coords[0][rows_fit], coords[1][rows_fit])
            d = tuple(x[rows_fit] for x in comps) if len(comps) > 1 else comps[0][rows_fit]
            w = None if weights is None else (tuple(x[rows_fit] for x in wts) if len(comps) > 1 else wts[0][rows_fit])
            est.fit(c, d, w)
            p = est.predict((coords[0][rows_eval], coords[1][rows_eval]))
            return list(p) if isinstance(p, tuple) else [p]
        p = fitpred(tr, te)
        out["right"].append(np.mean([metric(scoring_i, comps[k][te], p[k], None if wts[k] is None else wts[k][te]) for k in range(len(comps))]))
        out["unweighted"].append(np.mean([metric(scoring_i, comps[k][te], p[k], None) for k in range(len(comps))]))
        p2 = fitpred(tr, tr)
        out["on_train"].append(np.mean([metric(scoring_i, comps[k][tr], p2[k], None if wts[k] is None else wts[k][tr]) for k in range(len(comps))]))
        allrows = np.arange(n_rows)
        p3 = fitpred(allrows, te)
        out["fit_all"].append(np.mean([metric(scoring_i, comps[k][te], p3[k], None if wts[k] is None else wts[k][te]) for k in range(len(comps))]))
    return {k: np.array(v) for k, v in out.items()}


class FakeFuture:
    def __init__(self, client, thunk):
        self.client, self.thunk, self.value, self.done = client, thunk, None, False

    def result(self):
        self.client.flush()
        return self.value


class FakeClient:
    """submit() defers; the pending thunks complete in the order given by `order` at the first result()."""

    def __init__(self, order):
        self.order = list(order)
        self.pending = []

    def submit(self, fn, *args, **kwargs):
        f = FakeFuture(self, lambda: fn(*args, **kwargs))
        self.pending.append(f)
        return f

    def flush(self):
        todo = [f for f in self.pending if not f.done]
        idx = [i for i in self.order if i < len(todo)] + [i for i in range(len(todo)) if i not in self.order]
        for i in idx:
            f = todo[i]
            f.value = f.thunk()
            f.done = True


class EnvFuture:
    def __init__(self, client, thunk):
        self.client, self.thunk, self.value, self._done = client, thunk, None, False
        self.status = "pending"

    def _run(self):
        if not self._done:
            self.value = self.thunk()
            self._done = True
            self.status = "finished"

    def done(self):
        return self._done

    def result(self, timeout=None):  # noqa: U100
        # before this future is waited for, the environment may let ONE other pending future finish first
        others = [f for f in self.client.futures if not f._done and f is not self]
        c = self.client.chooser.choose(1 + len(others), "result")
        if c:
            others[c - 1]._run()
        self._run()
        return self.value


class EnvClient:
    """Fake client whose futures complete when the environment (a schedules.Chooser) says so: at every submit() it may let one
    of the still-pending futures finish (answer 0: none), so later-submitted work can be done while earlier work is still
    running; done() reports truthfully.  Explored with a bound on the number of non-default answers."""

    def __init__(self, chooser):
        self.chooser = chooser
        self.futures = []

    def submit(self, fn, *args, **kwargs):
        f = EnvFuture(self, lambda: fn(*args, **kwargs))
        self.futures.append(f)
        pending = [x for x in self.futures if not x._done]
        c = self.chooser.choose(1 + len(pending), "submit")
        if c:
            pending[c - 1]._run()
        return f


def _fitted_attrs(est):
    return sorted(a for a in vars(est) if a.endswith("_") and not a.startswith("__"))


def run(case, rec):
    import dask
    import verde as vd

    warnings.simplefilter("ignore")
    kind = case["kind"]
    if kind in ("cvs", "score"):
        e, n, d, w = dataset(case["ds"])
        key = case["est"]
        vec = key == "V"
        data = (d[0], d[1]) if vec else d[0]
        wts = None
        if case["w"]:
            wts = (w[0], w[1]) if vec else w[0]
        if case["w"] == "zero":
            z_ = lambda a_: np.where(np.arange(a_.size) % 4 == 1, 0.0, a_)
            wts = (z_(w[0]), z_(w[1])) if vec else z_(w[0])
        vcoords, vdata, vwts = (e, n), data, wts
        if case.get("shape") == "2dmix":
            shp = (2, e.size // 2)
            C_ = lambda a: a.reshape(shp)
            F_ = lambda a: np.asfortranarray(a.reshape(shp))
            T_ = lambda a: np.ascontiguousarray(a.reshape(shp).T).T
            vcoords = (C_(e), C_(n))
            vdata = tuple(F_(x) for x in data) if vec else F_(data)
            vwts = None if wts is None else (tuple(T_(x) for x in wts) if vec else T_(wts))
        if case.get("shape") == "series":
            # data and weights as columns of a sorted / shuffled table (integer index = a permutation of 0..n-1), coordinates as arrays:
            # rows are selected by POSITION (seed C12-10)
            vdata = tuple(permuted_series(x, k) for k, x in enumerate(data)) if vec else permuted_series(data)
            vwts = None if wts is None else (tuple(permuted_series(x, k + 1) for k, x in enumerate(wts)) if vec else permuted_series(wts, 1))
        if kind == "score":
            est = make_est(key)
            est.fit((e, n), data, wts)
            got = call(rec, est.score, (e, n), data, wts)
            if raised(got):
                return rec.check(False, "score raised %r" % (got,))
            p = est.predict((e, n))
            p = list(p) if isinstance(p, tuple) else [p]
            comps = list(data) if vec else [data]
            ws = [None, None] if wts is None else (list(wts) if vec else [wts])
            want = np.mean([metric(0, comps[k], p[k], ws[k]) for k in range(len(comps))])
            rec.check(abs(float(got) - want) <= 1e-10, "score %r != weighted R2 averaged over components %r" % (got, want))
            if wts is not None:
                unw = np.mean([metric(0, comps[k], p[k], None) for k in range(len(comps))])
                rec.cls("score:weights-visible" if abs(unw - want) > 1e-3 else "score:weights-invisible")
            return
        cvkey, si, mode = case["cv"], case["scoring"], case["mode"]
        ref = reference_scores(key, (e, n), data, wts, make_cv(cvkey), si, e.size)
        nsplit = len(ref["right"])
        disc = [name for name in ("on_train", "fit_all", "unweighted") if np.max(np.abs(ref[name] - ref["right"])) > 1e-3]
        rec.cls("cvs/%s/discriminates:%s" % (mode, "+".join(disc) or "nothing"))
        rec.trivial = not disc

        def check_scores(got, what):
            got = np.asarray(got, dtype=float)
            if not rec.check(got.shape == (nsplit,), "%s: %d scores for %d splits" % (what, got.size, nsplit)):
                return
            err = np.max(np.abs(got - ref["right"]))
            expl = ""
            for name in ("on_train", "fit_all", "unweighted"):
                if np.max(np.abs(got - ref[name])) <= 1e-10 and name in disc:
                    expl = " (it equals the score %s)" % {"on_train": "computed on the TRAINING rows", "fit_all": "of a model fitted on ALL rows",
                                                           "unweighted": "that IGNORES the test weights"}[name]
            rec.check(err <= 1e-10, "%s: scores %s differ from fresh clones fitted on the training rows and scored on the test rows %s%s"
                      % (what, got.tolist(), ref["right"].tolist(), expl))

        if mode == "serial":
            est = make_est(key)
            before = (repr(est.get_params()), _fitted_attrs(est))
            got = call(rec, vd.cross_val_score, est, vcoords, vdata, weights=vwts, cv=make_cv(cvkey), scoring=make_scoring(si))
            if raised(got):
                return rec.check(False, "cross_val_score raised %r" % (got,))
            rec.check(isinstance(got, np.ndarray), "serial cross_val_score must return an array")
            if cvkey == "stateful":
                # the reference above replayed draw 0; accept the scores of ANY single draw the call may have consumed (0 .. 3)
                refs = [reference_scores(key, (e, n), data, wts, StatefulCV(frozen=k), si, e.size)["right"] for k in range(4)]
                gotv = np.asarray(got, dtype=float)
                rec.check(gotv.shape == (2,) and any(np.max(np.abs(gotv - r)) <= 1e-10 for r in refs),
                          "cross_val_score with a splitter that draws anew on every call: scores %s are not those of the splits of any single draw %s "
                          "(training rows of one draw paired with test rows of another?)" % (gotv.tolist(), [r.tolist() for r in refs]))
            else:
                check_scores(got, "serial")
            rec.check((repr(est.get_params()), _fitted_attrs(est)) == before, "the estimator passed in was modified: %r -> %r" % (before, (repr(est.get_params()), _fitted_attrs(est))))
            if vec:
                rec.check(all(not _fitted_attrs(c) for c in est.components), "components of the Vector passed in were fitted")
            return
        if mode == "client":
            for order in itertools.permutations(range(nsplit)):
                est = make_est(key)
                client = FakeClient(order)
                got = call(rec, vd.cross_val_score, est, (e, n), data, weights=wts, cv=make_cv(cvkey), scoring=make_scoring(si), client=client)
                if raised(got):
                    return rec.check(False, "cross_val_score(client) raised %r" % (got,))
                if case.get("reconf"):
                    _reconfigure(est, key)
                vals = [f.result() for f in got]
                check_scores(vals, "client completion order %s" % (order,))
                rec.check(not _fitted_attrs(est), "estimator passed in was fitted (client)")
                rec.count("client_orders", 1)
            return
        # delayed: every interleaving at the fit/score boundary
        bound = case.get("bound", 2 if nsplit >= 3 else None)
        serial = None
        outcomes = set()

        def run_sched(prefix):
            est = make_est(key, instrumented=True)
            if case.get("lines") == "all":
                b = S.Baton(prefix, trace_files=("verde/",))
            elif case.get("lines") == "deep":
                b = S.Baton(prefix, trace_files=("verde/model_selection.py", "verde/base/utils.py", "verde/base/base_classes.py", "verde/trend.py",
                                                 "verde/spline.py", "verde/neighbors.py", "verde/base/least_squares.py"),
                            trace_funcs=("fit_score", "score_estimator", "score", "predict", "fit", "jacobian", "least_squares", "predict_numpy",
                                         "jacobian_numpy", "greens_func_numpy"))
            elif case.get("lines"):
                b = S.Baton(prefix, trace_files=("verde/model_selection.py", "verde/base/utils.py", "verde/base/base_classes.py"),
                            trace_funcs=("fit_score", "score_estimator", "score", "predict", "fit", "get_scorer"))
            else:
                b = S.Baton(prefix)
            scores = vd.cross_val_score(est, (e, n), data, weights=wts, cv=make_cv(cvkey), scoring=make_scoring(si), delayed=True)
            if case.get("reconf"):
                _reconfigure(est, key)
            out = dask.compute(*scores, scheduler=b)
            return (tuple(float(x) for x in out), _fitted_attrs(est)), b

        nsched = 0
        first_bad = None
        for choices, (vals, fitted), b in S.explore(run_sched, bound, limit=2000000, part=tuple(case["part"]) if case.get("part") else None):
            nsched += 1
            rec.trans()
            outcomes.add(tuple(round(v, 12) for v in vals))
            ok = len(vals) == nsplit and max(abs(a - r) for a, r in zip(vals, ref["right"])) <= 1e-10 and not fitted
            if not ok and first_bad is None:
                # replay twice before trusting it
                again1, _ = run_sched(choices)
                again2, _ = run_sched(choices)
                if again1 != again2 or again1[0] != vals:
                    raise S.HarnessError("schedule %s does not replay identically" % (choices,))
                first_bad = (choices, vals, [(i, l) for i, l in b.labels])
        rec.count("schedules", nsched)
        rec.count("distinct_outcomes", len(outcomes))
        rec.state(["sched", key, cvkey, si, nsched])
        rec.check(first_bad is None, "delayed execution under schedule %s gives %s, serial/reference %s (interleaving %s)"
                  % (first_bad[0] if first_bad else "", first_bad[1] if first_bad else "", ref["right"].tolist(), first_bad[2] if first_bad else ""))
        return
    if kind == "tts":
        e, n, d, w = dataset(case["ds"])
        npts = e.size
        ids = np.arange(npts, dtype=float)
        coords = (e, n, ids * 10.0)
        data = (ids * 100.0, ids * 1000.0 + 1) if case["vec"] else ids * 100.0
        wts = None
        if case["w"]:
            wts = (ids + 0.5, ids * 2.0 + 0.25) if case["vec"] else ids + 0.5
        if case.get("shape") == "2dmix":
            shp = (2, npts // 2)
            coords = tuple(a.reshape(shp) for a in coords)
            F_ = lambda a: np.asfortranarray(a.reshape(shp))
            T_ = lambda a: np.ascontiguousarray(a.reshape(shp).T).T
            data = tuple(F_(a) for a in data) if case["vec"] else F_(data)
            wts = None if wts is None else (tuple(T_(a) for a in wts) if case["vec"] else T_(wts))
        if case.get("shape") == "series":
            data = tuple(permuted_series(a, k) for k, a in enumerate(data)) if case["vec"] else permuted_series(data)
            wts = None if wts is None else (tuple(permuted_series(a, k + 1) for k, a in enumerate(wts)) if case["vec"] else permuted_series(wts, 1))
        kw = dict(test_size=case["test_size"], random_state=case["seed"])
        if case["mode"] == "spacing":
            kw["spacing"] = 1.0
        elif case["mode"] == "shape":
            kw["shape"] = (2, 4)
        got = call(rec, vd.train_test_split, coords, data, wts, **kw)
        if raised(got):
            # sizes that scikit-learn rejects
            from sklearn.model_selection import ShuffleSplit
            nunits = npts if case["mode"] == "plain" else len(set(zip(np.floor(e).tolist(), np.floor(n).tolist())))
            try:
                next(ShuffleSplit(n_splits=1, test_size=case["test_size"], random_state=0).split(np.arange(nunits)))
                rec.check(False, "train_test_split raised %r" % (got,))
            except ValueError:
                rec.trivial = True
            return
        train, test = got
        rows = []
        for part, name in ((train, "train"), (test, "test")):
            c, dd, ww = part
            r = np.asarray(c[2]) / 10.0
            rows.append(set(int(round(x)) for x in r.tolist()))
            rec.check(np.array_equal(np.asarray(c[0]), e[r.astype(int)]) and np.array_equal(np.asarray(c[1]), n[r.astype(int)]), "%s: coordinates misaligned" % name)
            comps = list(dd) if isinstance(dd, tuple) else [dd]
            rec.check(len(comps) == (2 if case["vec"] else 1), "%s: wrong number of data components" % name)
            rec.check(np.array_equal(comps[0], r * 100.0) and (not case["vec"] or np.array_equal(comps[1], r * 1000.0 + 1)), "%s: data rows misaligned with coordinates" % name)
            if wts is None:
                rec.check(all(x is None for x in ww) if isinstance(ww, tuple) else ww is None, "%s: weights appeared from nowhere" % name)
            else:
                wl = list(ww)
                rec.check(np.array_equal(wl[0], r + 0.5) and (not case["vec"] or np.array_equal(wl[1], r * 2.0 + 0.25)), "%s: weight rows misaligned" % name)
        rec.check(not (rows[0] & rows[1]) and (rows[0] | rows[1]) == set(range(npts)), "train and test rows are not complementary: %s %s" % (sorted(rows[0]), sorted(rows[1])))
        rec.check(len(rows[1]) > 0 and len(rows[0]) > 0, "empty side")
        if case["mode"] != "plain":
            blk = lambda i: (int(np.floor(e[i])), int(np.floor(n[i])))
            rec.check(not ({blk(i) for i in rows[0]} & {blk(i) for i in rows[1]}), "a block was split between train and test")
        again = call(rec, vd.train_test_split, coords, data, wts, **kw)
        rec.check(not raised(again) and np.array_equal(again[1][0][2], test[0][2]), "not reproducible for a fixed random_state")
        rec.cls("tts/%s" % case["mode"])
        return
    if kind in ("splinecv", "splinecv_sched", "splinecv_env"):
        e, n, d, w = dataset(0)
        data = d[0]
        dampings = case["dampings"]
        mindists = None if case.get("mind", "default") == "default" else [0.05, 0.4]
        cvkey = case["cv"]
        sc = case.get("scoring")
        si = SCORERS.index(sc)

        def mean_scores():
            out = {}
            for md in ([0] if mindists is None else mindists):
                for dm in dampings:
                    X = np.column_stack([e, n])
                    from sklearn.model_selection import KFold
                    cv = make_cv(cvkey) or KFold(shuffle=True, random_state=0, n_splits=5)
                    vals = []
                    for tr, te in cv.split(X):
                        with warnings.catch_warnings():
                            warnings.simplefilter("ignore")
                            sp = vd.Spline(mindist=md if mindists is not None else None, damping=dm)
                        sp.fit((e[tr], n[tr]), data[tr])
                        vals.append(metric(si, data[te], sp.predict((e[te], n[te])), None))
                    out[(md, dm)] = float(np.mean(vals))
            return out

        ref = mean_scores()
        order = [(md, dm) for md in ([0] if mindists is None else mindists) for dm in dampings]
        best = max(ref.values())
        winners = {k for k, v in ref.items() if v >= best - 1e-12}
        rec.cls("splinecv/best at position %d" % order.index(sorted(winners, key=order.index)[0]))

        def make(delayed):
            with warnings.catch_warnings():
                warnings.simplefilter("ignore")
                return vd.SplineCV(dampings=dampings, mindists=mindists, cv=make_cv(cvkey), delayed=delayed, scoring=sc)

        def verify(cvest, what, scores_values=None):
            rec.check((cvest.mindist_, cvest.damping_) in winners, "%s: selected (mindist, damping) = %r, the highest mean cross-validated score is at %s (scores %s)"
                      % (what, (cvest.mindist_, cvest.damping_), sorted(winners), ref))
            with warnings.catch_warnings():
                warnings.simplefilter("ignore")
                sp = vd.Spline(mindist=cvest.mindist_ if mindists is not None else None, damping=cvest.damping_).fit((e, n), data)
            qe, qn = np.meshgrid(np.linspace(0.2, 3.8, 5), np.linspace(0.2, 1.8, 3))
            rec.check(np.allclose(cvest.predict((qe, qn)), sp.predict((qe, qn)), rtol=1e-12, atol=1e-12), "%s: predictions differ from a Spline with the selected parameters fitted to all the data" % what)
            rec.check(tuple(cvest.region_) == tuple(sp.region_), "%s: region_" % what)
            if scores_values is not None:
                rec.check(np.allclose(np.asarray(scores_values, dtype=float), [ref[k] for k in order], rtol=0, atol=1e-10), "%s: scores_ %s != independently computed mean scores %s"
                          % (what, np.asarray(scores_values).tolist(), [ref[k] for k in order]))

        if kind == "splinecv_env":
            outcomes = set()
            nrun = 0
            bad = None

            def run_env(chooser):
                with warnings.catch_warnings():
                    warnings.simplefilter("ignore")
                    cvest = vd.SplineCV(dampings=dampings, mindists=mindists, cv=make_cv(cvkey), client=EnvClient(chooser))
                cvest.fit((e, n), data)
                return (cvest.mindist_, cvest.damping_, tuple(round(float(v), 10) for v in np.asarray(cvest.scores_, dtype=float)))

            want_scores = tuple(round(ref[k], 10) for k in order)
            for choices, obs, ch in S.explore_choices(run_env, case["bound"]):
                nrun += 1
                rec.trans()
                outcomes.add(obs)
                ok = (obs[0], obs[1]) in winners and len(obs[2]) == len(want_scores) and max(abs(a - b) for a, b in zip(obs[2], want_scores)) <= 1e-9
                if not ok and bad is None:
                    again = run_env(S.Chooser(choices))
                    if again != obs:
                        raise S.HarnessError("environment schedule %s does not replay identically" % (choices,))
                    bad = (choices, obs, [lbl for _, _, lbl in ch.trace])
            rec.count("client_environment_schedules", nrun)
            rec.check(bad is None, "SplineCV(client) under environment answers %s (at %s): selected %s with scores %s; independently computed scores %s, best %s"
                      % (bad[0] if bad else "", bad[2] if bad else "", bad[1][:2] if bad else "", bad[1][2] if bad else "", want_scores, sorted(winners)))
            rec.check(len(outcomes) == 1, "SplineCV(client) result depends on when the futures complete: %d distinct outcomes" % len(outcomes))
            return
        if kind == "splinecv" and case.get("client"):
            for order_ in itertools.permutations(range(len(order))):
                with warnings.catch_warnings():
                    warnings.simplefilter("ignore")
                    cvest = vd.SplineCV(dampings=dampings, mindists=mindists, cv=make_cv(cvkey), client=FakeClient(order_))
                fit = call(rec, cvest.fit, (e, n), data)
                if raised(fit):
                    return rec.check(False, "SplineCV(client).fit raised %r" % (fit,))
                verify(cvest, "client completion order %s" % (order_,), cvest.scores_)
                rec.count("client_orders", 1)
            return
        if kind == "splinecv":
            cvest = make(case["delayed"])
            if case["delayed"]:
                b = S.Baton([])
                with dask.config.set(scheduler=b):
                    fit = call(rec, cvest.fit, (e, n), data)
                    if raised(fit):
                        return rec.check(False, "SplineCV(delayed).fit raised %r" % (fit,))
                    vals = dask.compute(*cvest.scores_)
                verify(cvest, "delayed", vals)
            else:
                fit = call(rec, cvest.fit, (e, n), data)
                if raised(fit):
                    return rec.check(False, "SplineCV.fit raised %r" % (fit,))
                verify(cvest, "serial", cvest.scores_)
            return
        # schedules of the SplineCV graph
        nsched = 0
        outcomes = set()
        bad = None

        import verde.spline as vsp

        def run_sched(prefix):
            if case.get("lines"):
                b = S.Baton(prefix, trace_files=("verde/model_selection.py", "verde/base/utils.py", "verde/base/base_classes.py"),
                            trace_funcs=("fit_score", "score_estimator", "score", "get_scorer"))
            else:
                b = S.Baton(prefix)
            cvest = make(True)
            orig = vsp.Spline
            if orig not in _ICACHE:
                _ICACHE[orig] = _instrument(orig)
            vsp.Spline = _ICACHE[orig]      # the candidates SplineCV builds yield to the explorer after each fit
            try:
                with dask.config.set(scheduler=b):
                    cvest.fit((e, n), data)
            finally:
                vsp.Spline = orig
            means = tuple(round(float(v), 10) for name, v in b.values if name.startswith("mean"))
            return (cvest.mindist_, cvest.damping_, tuple(np.round(np.asarray(cvest.force_), 9).tolist()), means), b

        for choices, obs, b in S.explore(run_sched, case.get("bound", 0)):
            nsched += 1
            rec.trans()
            outcomes.add(obs)
            if (obs[0], obs[1]) not in winners and bad is None:
                bad = (choices, obs[:2])
            want_means = tuple(round(ref[k], 10) for k in order)
            if bad is None and (len(obs[3]) != len(want_means) or max(abs(a - w_) for a, w_ in zip(obs[3], want_means)) > 1e-9):
                bad = (choices, ("mean cross-validation scores %s != independently computed %s" % (obs[3], want_means)))
        rec.count("schedules", nsched)
        rec.count("distinct_outcomes", len(outcomes))
        rec.count("splinecv_topological_orders", S.count_topological_orders(b.shape))
        rec.check(bad is None, "SplineCV under task order %s selected %s, best is %s" % (bad[0] if bad else "", bad[1] if bad else "", sorted(winners)))
        rec.check(len(outcomes) == 1, "SplineCV result depends on the task order: %d distinct outcomes" % len(outcomes))
        return
    raise ValueError(kind)
