"""
C07  Regular coordinates honour region, spacing, shape and registration.

Space: quarter-unit lattice of (start, extent, spacing) x adjust x registration for
line_coordinates, sizes 1..6, a family of regions x shapes/spacings x adjust x registration
x meshgrid x extra_coords for grid_coordinates (+ shape_to_spacing on every grid), the
invalid argument combinations, and profile_coordinates on a lattice of end points.
Oracle: exact rational arithmetic (models.gridref).
"""
import itertools
import math
from fractions import Fraction as F

import numpy as np

from mc.util import call, raised, pick_frames
from models import gridref as G

ID = "C07"
LEVEL = "model_checking"
RULE = (
    "Exhaustive product of a rational lattice: line_coordinates(start in {-3,0,1/4,1000} x extent in k/4, k=0..20 x "
    "spacing in k/4, k=1..24 x adjust x pixel_register), sizes 1..6, non-dyadic intervals with 2..160 nodes given by size or by the matching spacing, grid_coordinates(regions x shapes {1..4}^2 / scalar "
    "and per-direction spacings x adjust x pixel x meshgrid x extra_coords), invalid combinations, profile_coordinates "
    "(lattice end points x size 1..5 x extra). Each lattice is repeated under exact dyadic scale frames. A case is "
    "non-trivial unless it is an expected-refusal case; distinct = distinct canonical case."
    " Added axes: scalar argument types (int, np.int64, np.float32), numpy-array region / shape / spacing with purity, near-fitting spacings for many intervals, starts of 7.46e6 and -2^30, extra_coords = 0."
)
ASSUMPTIONS = [
    "node values are compared at 4 ulp of the largest bound; first node and (adjust='spacing') last node exactly",
    "on an exact .5 tie of extent/spacing either neighbouring interval count is accepted",
]

STARTS = [-3.0, 0.0, 0.25, 1000.0, 7460000.0, -(2.0 ** 30)]   # the last two: offsets 1e6 ... 1e9 times the extent (seed C07-10: relative "zero width" test)
REGIONS = [
    [0.0, 4.0, 0.0, 3.0],
    [-5.0, 0.0, 5.0, 10.0],
    [-3.5, 2.25, -7.0, -6.25],
    [1000.0, 1003.0, -2000.0, -1995.5],
    [2.0, 2.0, 1.0, 4.0],  # degenerate W == E
    [0.0, 5.0, 3.0, 3.0],  # degenerate S == N
]
SCALES = [1.0, 2.0 ** -7, 2.0 ** 10, 2.0 ** 20]


def bounds(tier, seed):
    return dict(frames=pick_frames(SCALES, tier, seed), starts=STARTS, regions=REGIONS,
                extent_quarters=[0, 20], spacing_quarters=[1, 24], sizes=[1, 6], shapes="{1..4}^2")


def cases(tier, seed):
    if tier == "thorough":
        # a finer lattice (eighths) with longer extents
        for start in (-3.0, 0.125, 1000.0):
            for ek in range(0, 57):
                for sk in range(1, 49):
                    for adjust in ("spacing", "region"):
                        for pixel in (False, True):
                            yield dict(kind="line_spacing", sc=1.0, start=start, ext=ek / 8, sp=sk / 8, adjust=adjust, pixel=pixel)
    for sc in pick_frames(SCALES, tier, seed):
        for start in STARTS:
            for ek in range(0, 21):
                for sk in range(1, 25):
                    for adjust in ("spacing", "region"):
                        for pixel in (False, True):
                            yield dict(kind="line_spacing", sc=sc, start=start, ext=ek / 4, sp=sk / 4,
                                       adjust=adjust, pixel=pixel)
        for start in STARTS:
            for ek in range(0, 21):
                for size in range(1, 7):
                    for pixel in (False, True):
                        yield dict(kind="line_size", sc=sc, start=start, ext=ek / 4, size=size, pixel=pixel)
        if sc == 1.0:
            # the same integral arguments passed as Python ints / numpy integer scalars / numpy float32 scalars
            for start in (-3, 0, 1000):
                for ext in range(0, 6):
                    for sp in range(1, 7):
                        for adjust in ("spacing", "region"):
                            for pixel in (False, True):
                                for at in ("int", "np.int64", "np.float32"):
                                    yield dict(kind="line_spacing", sc=1.0, start=float(start), ext=float(ext), sp=float(sp), adjust=adjust, pixel=pixel, argtype=at)
            for region in REGIONS[:2]:
                for spec in (dict(shape=[2, 3]), dict(spacing=1.0), dict(spacing=[2.0, 1.0])):
                    for adjust in ("spacing", "region"):
                        for pixel in (False, True):
                            yield dict(kind="grid", sc=1.0, region=region, spec=spec, adjust=adjust, pixel=pixel, mesh=True, extra=None, argtype="int")
            # region / shape / spacing given as numpy arrays (integer and float): same results, and the caller's arrays are untouched
            # (seed C07-7: an in-place decrement of the shape array)
            for region in REGIONS:
                for spec in (dict(shape=[2, 3]), dict(shape=[4, 6]), dict(shape=[1, 5]), dict(spacing=[2.0, 1.0]), dict(spacing=[0.5, 0.75])):
                    for adjust in ("spacing", "region"):
                        for pixel in (False, True):
                            yield dict(kind="grid", sc=1.0, region=region, spec=spec, adjust=adjust, pixel=pixel, mesh=True, extra=None, argtype="ndarray")
            # adjust='region' with a spacing that almost - but not exactly - fits, for many intervals (seed C07-r3_1: "close enough"
            # tests): the step must be the requested spacing and the far bound start + k * spacing
            for start, stop in ((0.0, 1000.0), (-3.0, 60.0), (0.0, 0.7)):
                for k in (7, 40, 1000, 2521):
                    for rel in (1e-4, 1e-6, -1e-6, 1e-9, -1e-9):
                        for pixel in (False, True):
                            yield dict(kind="line_near", start=start, stop=stop, k=k, rel=rel, pixel=pixel)
            # non-dyadic extents with many nodes: both bounds must still be hit exactly (added after seed C13-1)
            for start, stop in ((0.0, 0.7), (0.0, 5.0), (-3.3, 0.0), (0.0, 10.0), (1.1, 7.3), (-0.1, 0.2)):
                for size in range(2, 161):
                    for pixel in (False, True):
                        yield dict(kind="line_big", start=start, stop=stop, size=size, pixel=pixel, by="size")
                        yield dict(kind="line_big", start=start, stop=stop, size=size, pixel=pixel, by="spacing")
        specs = [dict(shape=[a, b]) for a in range(1, 5) for b in range(1, 5)]
        specs += [dict(spacing=s) for s in (0.5, 0.75, 1.0, 2.5)]
        specs += [dict(spacing=[a, b]) for a, b in ((0.5, 1.0), (1.0, 0.5), (0.75, 1.25), (2.0, 0.25), (1.5, 1.5), (7.0, 0.5))]
        for region in REGIONS:
            for spec in specs:
                for adjust in ("spacing", "region"):
                    for pixel in (False, True):
                        for mesh in (True, False):
                            for extra in (None, 57.0, [57.0, 0.125], 0.0, [0.0]):
                                yield dict(kind="grid", sc=sc, region=region, spec=spec, adjust=adjust, pixel=pixel,
                                           mesh=mesh, extra=extra)
        for bad in ("both", "neither", "three_spacings", "bad_adjust", "w_gt_e", "s_gt_n", "len3", "len5",
                    "line_both", "line_neither", "line_bad_adjust", "profile_size0"):
            yield dict(kind="invalid", sc=sc, bad=bad)
        pts = [(-1.0, 0.0), (0.0, 0.0), (3.0, 4.0), (0.0, 2.5), (2.0, 0.0), (-1.5, -2.0)]
        for p1 in pts:
            for p2 in pts:
                for size in range(1, 6):
                    for extra in (None, 35.0, [35.0, 0.5], 0.0):
                        yield dict(kind="profile", sc=sc, p1=list(p1), p2=list(p2), size=size, extra=extra)


def _check_line(rec, got, nodes_by_k, scale_vals, what):
    """got must match the exact nodes for one admissible k."""
    if raised(got):
        rec.check(False, "%s raised %r" % (what, got))
        return None
    got = np.asarray(got)
    rec.check(got.ndim == 1, "%s: not 1-D" % what)
    for k, nodes in nodes_by_k.items():
        if len(nodes) == got.size and G.close_nodes(got, nodes, scale_vals):
            return k
    rec.check(False, "%s: nodes %s match no admissible layout %s" % (
        what, got.tolist(), {k: [float(x) for x in v] for k, v in nodes_by_k.items()}))
    return None


def run(case, rec):
    import verde as vd

    kind = case["kind"]
    sc = case.get("sc", 1.0)
    if kind == "line_spacing":
        start, stop, sp = case["start"] * sc, (case["start"] + case["ext"]) * sc, case["sp"] * sc
        adjust, pixel = case["adjust"], case["pixel"]
        ks, tie = G.n_intervals(start, stop, sp)
        rec.cls("tie" if tie else ("ratio<.5" if (stop - start) / sp < 0.5 else "regular"))
        layouts = {}
        ends = {}
        for k in ks:
            nodes, step, end = G.line_nodes_spacing(start, stop, sp, adjust, pixel, k)
            layouts[k] = nodes
            ends[k] = (step, end)
        conv = {"int": int, "np.int64": np.int64, "np.float32": np.float32}.get(case.get("argtype"), float)
        got = call(rec, vd.line_coordinates, conv(start), conv(stop), spacing=conv(sp), adjust=adjust, pixel_register=pixel)
        k = _check_line(rec, got, layouts, (start, stop, float(max(e for _, e in ends.values()))), "line_coordinates")
        if k is not None:
            got = np.asarray(got)
            step, end = ends[k]
            rec.check(got.size == (k if pixel else k + 1), "node count %d for k=%d pixel=%s" % (got.size, k, pixel))
            if not pixel:
                rec.check(float(got[0]) == start, "first node %r != start %r" % (got[0], start))
                if adjust == "spacing":
                    rec.check(float(got[-1]) == stop, "adjust=spacing: last node %r != stop %r" % (got[-1], stop))
                else:
                    rec.check(F(float(got[-1])) == end or abs(F(float(got[-1])) - end) <= 4 * F(G.ulp_scale(start, end)),
                              "adjust=region: last node %r != start + k*spacing %r" % (got[-1], float(end)))
            if adjust == "region" and got.size > 1:
                d = np.diff(got)
                tol = 8 * G.ulp_scale(start, float(end))
                rec.check(bool(np.all(np.abs(d - sp) <= tol)), "adjust=region: steps %s differ from spacing %r" % (d.tolist(), sp))
        return
    if kind == "line_size":
        start, stop = case["start"] * sc, (case["start"] + case["ext"]) * sc
        size, pixel = case["size"], case["pixel"]
        nodes, step = G.line_nodes_size(start, stop, size, pixel)
        got = call(rec, vd.line_coordinates, start, stop, size=size, pixel_register=pixel)
        k = _check_line(rec, got, {size: nodes}, (start, stop), "line_coordinates(size)")
        if k is not None and not pixel:
            got = np.asarray(got)
            rec.check(float(got[0]) == start, "first node != start")
            if size > 1:
                rec.check(float(got[-1]) == stop, "last node != stop")
        rec.cls("size=%d pixel=%s" % (size, pixel))
        return
    if kind == "line_near":
        start, stop, k, pixel = case["start"], case["stop"], case["k"], case["pixel"]
        spacing = (stop - start) / k * (1.0 + case["rel"])
        ks, tie = G.n_intervals(start, stop, spacing)
        got = call(rec, vd.line_coordinates, start, stop, spacing=spacing, adjust="region", pixel_register=pixel)
        if raised(got):
            return rec.check(False, "line_coordinates raised %r" % (got,))
        got = np.asarray(got)
        ok = False
        for kk in ks:
            nodes, step, end = G.line_nodes_spacing(start, stop, spacing, "region", pixel, kk)
            if got.size == len(nodes) and G.close_nodes(got, nodes, (start, stop, float(end)), nulp=8):
                ok = True
        rec.check(ok, "adjust='region': nodes are not start + i * spacing for spacing %r (k=%d): last node %r, expected about %r"
                  % (spacing, k, got[-1] if got.size else None, start + k * spacing))
        rec.cls("line_near")
        return
    if kind == "line_big":
        start, stop, size, pixel = case["start"], case["stop"], case["size"], case["pixel"]
        if case["by"] == "size":
            got = call(rec, vd.line_coordinates, start, stop, size=size, pixel_register=pixel)
            nodes, _ = G.line_nodes_size(start, stop, size, pixel)
        else:
            k = size - 1
            spacing = (stop - start) / k
            got = call(rec, vd.line_coordinates, start, stop, spacing=spacing, pixel_register=pixel)
            ks, _ = G.n_intervals(start, stop, spacing)
            rec.check(ks == {k}, "harness: spacing %r does not single out %d intervals (%s)" % (spacing, k, ks))
            nodes, _, _ = G.line_nodes_spacing(start, stop, spacing, "spacing", pixel, k)
        if raised(got):
            return rec.check(False, "line_coordinates raised %r" % (got,))
        got = np.asarray(got)
        rec.check(got.shape == (len(nodes),), "node count %s != %d" % (got.shape, len(nodes)))
        if got.shape == (len(nodes),):
            rec.check(G.close_nodes(got, nodes, (start, stop)), "nodes are not evenly spaced over [%r, %r]" % (start, stop))
            rec.check(float(got.min()) >= start and float(got.max()) <= stop, "node outside [start, stop]: min %r max %r" % (got.min(), got.max()))
            if not pixel:
                rec.check(float(got[0]) == start and float(got[-1]) == stop, "bounds not hit exactly: first %r last %r (start %r stop %r)" % (got[0], got[-1], start, stop))
        rec.cls("line_big/%s" % case["by"])
        return
    if kind == "grid":
        region = [v * sc for v in case["region"]]
        spec = case["spec"]
        adjust, pixel, mesh, extra = case["adjust"], case["pixel"], case["mesh"], case["extra"]
        kw = dict(adjust=adjust, pixel_register=pixel, meshgrid=mesh)
        if extra is not None:
            kw["extra_coords"] = extra
        if "shape" in spec:
            kw["shape"] = tuple(spec["shape"])
        else:
            s = spec["spacing"]
            kw["spacing"] = tuple(v * sc for v in s) if isinstance(s, list) else s * sc
        if case.get("argtype") == "int":
            region = [int(v) for v in region]
            if "spacing" in kw:
                kw["spacing"] = tuple(int(v) for v in kw["spacing"]) if isinstance(kw["spacing"], tuple) else int(kw["spacing"])
        as_arrays = case.get("argtype") == "ndarray"
        if as_arrays:
            region_arg = np.array(region, dtype=float)
            for k_ in ("shape", "spacing"):
                if k_ in kw:
                    kw[k_] = np.array(kw[k_]) if k_ == "shape" else np.array(kw[k_], dtype=float)
            snap = {k_: v_.copy() for k_, v_ in dict(kw, region=region_arg).items() if isinstance(v_, np.ndarray)}
            got = call(rec, vd.grid_coordinates, region_arg, **kw)
            now = dict(kw, region=region_arg)
            rec.check(all(np.array_equal(now[k_], v_) and now[k_].dtype == v_.dtype for k_, v_ in snap.items()),
                      "grid_coordinates modified an argument array: %r -> %r" % ({k_: v_.tolist() for k_, v_ in snap.items()}, {k_: now[k_].tolist() for k_ in snap}))
            if "shape" in kw:
                for pr_ in (False, True):
                    shp_arr = np.array(spec["shape"])
                    first = call(rec, vd.coordinates.shape_to_spacing, region_arg, shp_arr, pixel_register=pr_)
                    rec.check(np.array_equal(shp_arr, spec["shape"]) and np.array_equal(region_arg, region),
                              "shape_to_spacing(pixel_register=%r) modified its arguments: shape %r -> %r" % (pr_, spec["shape"], shp_arr.tolist()))
                    if pr_ or min(spec["shape"]) > 1:
                        ref_ = call(rec, vd.coordinates.shape_to_spacing, list(region), tuple(spec["shape"]), pixel_register=pr_)
                        rec.check(not raised(first) and not raised(ref_) and tuple(float(v) for v in first) == tuple(float(v) for v in ref_),
                                  "shape_to_spacing with array arguments %r differs from tuple arguments %r" % (first, ref_))
        else:
            got = call(rec, vd.grid_coordinates, region, **kw)
        if not mesh and extra is not None:
            rec.trivial = True
            rec.cls("refusal:meshgrid=False+extra")
            rec.check(raised(got) and isinstance(got.exc, ValueError), "meshgrid=False with extra_coords must raise, got %r" % (got,))
            return
        if raised(got):
            rec.check(False, "grid_coordinates raised %r" % (got,))
            return
        # reference per axis
        lay = []
        for ax in (0, 1):  # 0: east, 1: north
            lo, hi = region[2 * ax], region[2 * ax + 1]
            if "shape" in spec:
                size = spec["shape"][1 - ax]
                nodes, step = G.line_nodes_size(lo, hi, size, pixel)
                lay.append(({size: nodes}, (lo, hi)))
            else:
                s = spec["spacing"]
                spv = (s[1 - ax] if isinstance(s, list) else s) * sc
                ks, tie = G.n_intervals(lo, hi, spv)
                d = {}
                mx = hi
                for k in ks:
                    nodes, step, end = G.line_nodes_spacing(lo, hi, spv, adjust, pixel, k)
                    d[k] = nodes
                    mx = max(mx, float(end))
                lay.append((d, (lo, hi, mx)))
        nexp = 2 + (0 if extra is None else (len(extra) if isinstance(extra, list) else 1))
        rec.check(isinstance(got, tuple) and len(got) == nexp, "expected a tuple of %d arrays, got %r" % (nexp, type(got)))
        east, north = np.asarray(got[0]), np.asarray(got[1])
        if mesh:
            rec.check(east.ndim == 2 and east.shape == north.shape, "meshgrid arrays must be 2-D of equal shape")
            if east.ndim != 2:
                return
            e1, n1 = east[0, :], north[:, 0]
            rec.check(bool(np.all(east == e1[None, :])), "easting not constant down columns")
            rec.check(bool(np.all(north == n1[:, None])), "northing not constant along rows")
        else:
            rec.check(east.ndim == 1 and north.ndim == 1, "meshgrid=False must return 1-D vectors")
            e1, n1 = east, north
        ke = _check_line(rec, e1, lay[0][0], lay[0][1], "easting axis")
        kn = _check_line(rec, n1, lay[1][0], lay[1][1], "northing axis")
        if mesh and ke is not None and kn is not None:
            rec.check(east.shape == (n1.size, e1.size), "grid shape %s is not (n_north, n_east)" % (east.shape,))
            if "shape" in spec:
                rec.check(east.shape == tuple(spec["shape"]), "grid shape %s != requested %s" % (east.shape, spec["shape"]))
        if extra is not None and mesh:
            vals = extra if isinstance(extra, list) else [extra]
            for arr, v in zip(got[2:], vals):
                arr = np.asarray(arr)
                rec.check(arr.shape == east.shape and bool(np.all(arr == v)), "extra coordinate is not the constant %r in grid shape" % v)
        # shape_to_spacing inverts the shape
        if mesh and ke is not None and kn is not None and east.shape[0] >= 1:
            shp = east.shape
            ok_shape = all(s > (0 if pixel else 1) for s in shp)
            if ok_shape and "shape" in spec:
                sp = call(rec, vd.coordinates.shape_to_spacing, region, shp, pixel_register=pixel)
                if raised(sp):
                    rec.check(False, "shape_to_spacing raised %r" % (sp,))
                else:
                    want_n = (G.fr(region[3]) - G.fr(region[2])) / (shp[0] if pixel else shp[0] - 1)
                    want_e = (G.fr(region[1]) - G.fr(region[0])) / (shp[1] if pixel else shp[1] - 1)
                    tol = 4 * G.ulp_scale(*region)
                    rec.check(abs(F(float(sp[0])) - want_n) <= F(tol) and abs(F(float(sp[1])) - want_e) <= F(tol),
                              "shape_to_spacing %r != (%r, %r)" % (sp, float(want_n), float(want_e)))
                    # and the step of the generated grid equals it
                    if shp[1] > 1:
                        rec.check(bool(np.all(np.abs(np.diff(e1) - float(want_e)) <= 8 * tol)), "grid easting step != shape_to_spacing")
                    if shp[0] > 1:
                        rec.check(bool(np.all(np.abs(np.diff(n1) - float(want_n)) <= 8 * tol)), "grid northing step != shape_to_spacing")
        rec.cls("%s %s px=%d mesh=%d" % ("shape" if "shape" in spec else "spacing", adjust, pixel, mesh))
        return
    if kind == "invalid":
        rec.trivial = True
        bad = case["bad"]
        reg = [0.0, 4.0 * sc, 0.0, 3.0 * sc]
        calls = {
            "both": lambda: vd.grid_coordinates(reg, shape=(2, 2), spacing=1.0 * sc),
            "neither": lambda: vd.grid_coordinates(reg),
            "three_spacings": lambda: vd.grid_coordinates(reg, spacing=(1.0 * sc, 1.0 * sc, 1.0 * sc)),
            "bad_adjust": lambda: vd.grid_coordinates(reg, spacing=1.0 * sc, adjust="nope"),
            "w_gt_e": lambda: vd.grid_coordinates([4.0 * sc, 0.0, 0.0, 3.0 * sc], shape=(2, 2)),
            "s_gt_n": lambda: vd.grid_coordinates([0.0, 4.0 * sc, 3.0 * sc, 0.0], shape=(2, 2)),
            "len3": lambda: vd.grid_coordinates([0.0, 4.0 * sc, 0.0], shape=(2, 2)),
            "len5": lambda: vd.grid_coordinates([0.0, 4.0 * sc, 0.0, 3.0 * sc, 1.0], shape=(2, 2)),
            "line_both": lambda: vd.line_coordinates(0.0, 1.0 * sc, size=3, spacing=0.5 * sc),
            "line_neither": lambda: vd.line_coordinates(0.0, 1.0 * sc),
            "line_bad_adjust": lambda: vd.line_coordinates(0.0, 1.0 * sc, spacing=0.5 * sc, adjust="both"),
            "profile_size0": lambda: vd.profile_coordinates((0.0, 0.0), (1.0 * sc, 1.0 * sc), size=0),
        }
        got = call(rec, calls[bad])
        rec.check(raised(got) and isinstance(got.exc, ValueError), "invalid combination %r must raise ValueError, got %r" % (bad, got))
        rec.cls("refusal:" + bad)
        return
    if kind == "profile":
        p1 = [v * sc for v in case["p1"]]
        p2 = [v * sc for v in case["p2"]]
        size, extra = case["size"], case["extra"]
        kw = {} if extra is None else dict(extra_coords=extra)
        got = call(rec, vd.profile_coordinates, tuple(p1), tuple(p2), size, **kw)
        if raised(got):
            rec.check(False, "profile_coordinates raised %r" % (got,))
            return
        coords, dist = got
        nexp = 2 + (0 if extra is None else (len(extra) if isinstance(extra, list) else 1))
        rec.check(len(coords) == nexp, "expected %d coordinate arrays" % nexp)
        dx, dy = p2[0] - p1[0], p2[1] - p1[1]
        sep = math.hypot(dx, dy)
        scale = max(abs(v) for v in p1 + p2 + [sep, 1e-300])
        tol = 16 * math.ulp(scale)
        e, n, d = np.asarray(coords[0]), np.asarray(coords[1]), np.asarray(dist)
        rec.check(e.shape == (size,) and n.shape == (size,) and d.shape == (size,), "profile arrays must have `size` points")
        for i in range(size):
            t = 0.0 if size == 1 else i / (size - 1)
            rec.check(abs(e[i] - (p1[0] + t * dx)) <= tol and abs(n[i] - (p1[1] + t * dy)) <= tol,
                      "profile point %d (%r, %r) is not p1 + t (p2 - p1) for t=%r" % (i, e[i], n[i], t))
            rec.check(abs(d[i] - t * sep) <= tol, "distance %d: %r != %r" % (i, d[i], t * sep))
        rec.check(float(d[0]) == 0.0, "first distance must be 0")
        if extra is not None:
            vals = extra if isinstance(extra, list) else [extra]
            for arr, v in zip(coords[2:], vals):
                rec.check(np.asarray(arr).shape == (size,) and bool(np.all(np.asarray(arr) == v)), "extra coord not constant %r" % v)
        rec.cls("profile %s" % ("coincident" if sep == 0 else "vertical" if dx == 0 else "horizontal" if dy == 0 else "oblique"))
        return
    raise ValueError(kind)
