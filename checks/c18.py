"""
C18  Grid <-> table conversions preserve every value at its own coordinates.
"""
import itertools

import numpy as np

from mc.util import call, raised

ID = "C18"
LEVEL = "model_checking"
RULE = (
    "Exhaustive product: grid shape (n_n, n_e) in {1..3}x{1..4} x non-uniform axis vectors (increasing, decreasing, unsorted) x coordinate form {1-D axes, "
    "2-D meshgrid, 2-D non-meshgrid (must raise), mixed 1-D/2-D (must raise)} x 0..4 data variables x 0..3 extra coordinates x "
    "dims {default, custom} x name-count mismatches (must raise) for make_xarray_grid; non-meshgrids of 2.6e5 ... 5.2e5 nodes with one displaced cell (must raise); grid_to_table on the Dataset just built (and on a second grid with the same axis end points but other interior nodes), "
    "on named / unnamed DataArrays, with coordinates declared in either order, integer and float values; meshgrid_to_1d / "
    "meshgrid_from_1d round trips. Cell values are 1e4*v + 100*i + j so any transposition, flip or mis-pairing changes a value. "
    "Non-trivial: at least 2 rows and 2 columns with data."
    " Added axes: Fortran / transposed data, NaN patterns, descending / unsorted axes, single-row non-meshgrids, falsy DataArray names, mixed-dtype axes, sheared grids over 1e5 : 1 regions, Datasets built without make_xarray_grid."
)
ASSUMPTIONS = ["values encode (variable, row, column) injectively; equality is exact"]


def bounds(tier, seed):
    return dict(shapes="{1..3}x{1..4}", n_data=[0, 4], n_extra=[0, 3], dims=["default", "custom"])


EAST = [-10.0, -7.5, -6.0, 1.25, 2.0, 64.5]
NORTH = [8.0, 9.0, 20.5, 21.0, 40.25]


def cases(tier, seed):
    # grids of more than 2^18 nodes that are NOT meshgrids in ONE cell, placed in the first, a middle and the last row / column (round 8,
    # seed C18-16: a block-wise meshgrid test that never looked at the rows after the last complete block): must be refused
    for shp in ([700, 500], [1300, 400], [513, 512]):
        for where in ("first", "middle", "last"):
            for which in ("easting", "northing"):
                yield dict(kind="bigmesh", nn=shp[0], ne=shp[1], where=where, which=which)
    for nn in ((1, 2, 3) if tier == "quick" else (1, 2, 3, 4, 5)):
        for ne in ((1, 2, 3, 4) if tier == "quick" else (1, 2, 3, 4, 5, 6)):
            for form in ("1d", "2d"):
                for nd in (0, 1, 2, 3, 4):
                    for nx in (0, 1, 2, 3):
                        for dims in ("default", "custom"):
                            for dt in ("float", "int"):
                                if dt == "int" and (nx or dims == "custom"):
                                    continue
                                yield dict(kind="grid", nn=nn, ne=ne, form=form, nd=nd, nx=nx, dims=dims, dtype=dt)
            # data / extra-coordinate arrays that are not C-contiguous (Fortran order, transposed views): added after seed C18-1
            for form in ("1d", "2d"):
                for nd in (1, 3):
                    for nx in (0, 2):
                        yield dict(kind="grid", nn=nn, ne=ne, form=form, nd=nd, nx=nx, dims="default", dtype="float", mem="F")
            for named in (True, False):
                yield dict(kind="dataarray", nn=nn, ne=ne, order="ne", named=named, nx=1, mem="F")
                yield dict(kind="dataarray", nn=nn, ne=ne, order="ne", named=named, nx=1, mem="T")
            for form in ("1d", "2d"):
                for order in ("desc_n", "desc_e", "desc_both", "unsorted"):
                    yield dict(kind="grid", nn=nn, ne=ne, form=form, nd=2, nx=1, dims="default", dtype="float", order=order)
            for nanpat in ("one", "row", "all_vars_cell"):
                yield dict(kind="grid", nn=nn, ne=ne, form="2d", nd=2, nx=1, dims="default", dtype="float", nan=nanpat)
            # single-row / single-column 2-D arrays that are not meshgrids (seed C18-7) and DataArrays whose name is defined but falsy
            # (seed C18-8)
            for bad in ("row_n_varies", "col_e_varies", "row_n_varies_1d", "col_e_varies_1d"):
                yield dict(kind="invalid", nn=max(nn, 2), ne=max(ne, 2), bad=bad)
            for name in ("int0", "float0", "npint0"):
                yield dict(kind="dataarray", nn=nn, ne=ne, order="ne", named=name, nx=0)
            for bad in ("non_meshgrid_e", "non_meshgrid_n", "mixed", "names_short", "names_long", "extra_names_short", "extra_names_long",
                        "extra_names_none", "data_names_none"):
                yield dict(kind="invalid", nn=max(nn, 2), ne=max(ne, 2), bad=bad)
            for order in ("ne", "en"):
                for named in (True, False):
                    for nx in (0, 1):
                        yield dict(kind="dataarray", nn=nn, ne=ne, order=order, named=named, nx=nx)
            for nx in (0, 2):
                yield dict(kind="roundtrip", nn=nn, ne=ne, nx=nx)
            # Datasets not made by make_xarray_grid: coordinates declared first (easting before northing) and variables assigned later, a
            # DataArray turned into a Dataset, extra coordinates attached afterwards (seed C18-11: Dataset-level dimension order)
            for build in ("coords_first", "to_dataset", "vars_then_coords"):
                for nx in (1, 2):
                    yield dict(kind="dataset_build", nn=nn, ne=ne, build=build, nx=nx)
            for axes in ("f32_e", "int_e", "f32_n", "int_n"):
                yield dict(kind="roundtrip", nn=nn, ne=ne, nx=0, axes=axes)
            # almost-meshgrids over very elongated regions (1e5 to 1): the shear is far below 1e-5 of the LARGEST coordinate but not of
            # the coordinate it changes (seed C18-9: one absolute tolerance for both axes)
            for bad in ("shear_wide", "shear_tall"):
                yield dict(kind="invalid", nn=max(nn, 2), ne=max(ne, 2), bad=bad)


def _values(v, nn, ne, dt, mem="C"):
    a = np.array([[1e4 * v + 100 * i + j for j in range(ne)] for i in range(nn)])
    a = a.astype(np.int64) if dt == "int" else a + 0.5
    if mem == "F":
        a = np.asfortranarray(a)
    elif mem == "T":
        a = np.ascontiguousarray(a.T).T   # a transposed view of a C-contiguous array
    return a


def run(case, rec):
    import verde as vd
    import xarray as xr

    kind = case["kind"]
    nn, ne = case["nn"], case["ne"]
    if kind == "bigmesh":
        e2, n2 = np.meshgrid(np.arange(ne, dtype=float) * 10.0, np.arange(nn, dtype=float) * 10.0 + 100.0)
        ok = call(rec, vd.utils.meshgrid_to_1d, (e2, n2))
        rec.check(not raised(ok) and np.array_equal(ok[0], e2[0]) and np.array_equal(ok[1], n2[:, 0]), "a valid %d x %d meshgrid was refused or mis-read: %r" % (nn, ne, ok if raised(ok) else "values"))
        i = {"first": 0, "middle": nn // 2 + 1, "last": nn - 1}[case["where"]]
        j = {"first": 1, "middle": ne // 2, "last": ne - 2}[case["where"]]
        if case["which"] == "easting":
            i = max(i, 1)              # row 0 defines the easting vector
            e2[i, j] += 2.5
        else:
            j = max(j, 1)              # column 0 defines the northing vector
            n2[i, j] -= 2.5
        for fname, f in (("meshgrid_to_1d", lambda: vd.utils.meshgrid_to_1d((e2, n2))), ("make_xarray_grid", lambda: vd.make_xarray_grid((e2, n2), np.zeros((nn, ne)), "v"))):
            got = call(rec, f)
            rec.check(raised(got) and isinstance(got.exc, ValueError), "%s accepted a %d x %d grid whose %s is displaced in cell (%d, %d): not a meshgrid" % (fname, nn, ne, case["which"], i, j))
        rec.cls("bigmesh")
        return
    east, north = np.array(EAST[:ne]), np.array(NORTH[:nn])
    order = case.get("order")
    if order in ("desc_n", "desc_both"):
        north = north[::-1].copy()
    if order in ("desc_e", "desc_both"):
        east = east[::-1].copy()
    if order == "unsorted":
        east, north = np.roll(east, 1), np.roll(north, 1)
    e2, n2 = np.meshgrid(east, north)
    if kind == "grid":
        nd, nx, dt = case["nd"], case["nx"], case["dtype"]
        dims = ("northing", "easting") if case["dims"] == "default" else ("lat", "lon")
        mem = case.get("mem", "C")
        extras = [_values(7 + k, nn, ne, "float", mem) for k in range(nx)]
        coords = ((e2, n2) if case["form"] == "2d" else (east, north)) + tuple(extras)
        data = tuple(_values(v + 1, nn, ne, dt, mem) for v in range(nd))
        if case.get("nan"):
            # masked cells stay cells: one row per cell, NaN where the grid is NaN (seed C18-r2_1)
            data = tuple(np.array(d, dtype=float, copy=True) for d in data)
            if case["nan"] == "one":
                data[0][0, 0] = np.nan
            elif case["nan"] == "row":
                data[0][-1, :] = np.nan
                data[1][-1, :] = np.nan
            else:
                for d in data:
                    d[nn // 2, ne // 2] = np.nan
        names = ["var%d" % v for v in range(nd)]
        xnames = ["x%d" % k for k in range(nx)]
        kw = dict(dims=dims)
        if nx:
            kw["extra_coords_names"] = xnames if nx > 1 else xnames[0]
        if nd == 0:
            got = call(rec, vd.make_xarray_grid, coords, None, None, **kw)
        elif nd == 1:
            got = call(rec, vd.make_xarray_grid, coords, data[0], names[0], **kw)
        else:
            got = call(rec, vd.make_xarray_grid, coords, data, names, **kw)
        if raised(got):
            return rec.check(False, "make_xarray_grid raised %r" % (got,))
        ds = got
        rec.check(list(ds.data_vars) == names, "data variable names %r != %r" % (list(ds.data_vars), names))
        rec.check(set(ds.coords) == set(dims) | set(xnames), "coordinate names %r" % (list(ds.coords),))
        ok = True
        try:
            rec.check(np.array_equal(ds[dims[1]].values, east) and np.array_equal(ds[dims[0]].values, north),
                      "index coordinates differ from the axis vectors")
            for v, name in enumerate(names):
                rec.check(tuple(ds[name].dims) == dims, "variable dims %r != %r" % (ds[name].dims, dims))
                for i in range(nn):
                    for j in range(ne):
                        val = ds[name].sel({dims[0]: north[i], dims[1]: east[j]}).values
                        if not (val == data[v][i, j] or (np.isnan(val) and np.isnan(data[v][i, j]))):
                            ok = False
            for k, name in enumerate(xnames):
                for i in range(nn):
                    for j in range(ne):
                        val = ds[name].sel({dims[0]: north[i], dims[1]: east[j]}).values
                        if val != extras[k][i, j]:
                            ok = False
        except Exception as exc:  # noqa: BLE001
            rec.check(False, "cannot read the grid back: %r" % (exc,))
            return
        rec.check(ok, "a value does not sit at the (northing, easting) of its source cell")
        # table
        if nd >= 1:
            tab = call(rec, vd.grid_to_table, ds)
            if raised(tab):
                return rec.check(False, "grid_to_table raised %r" % (tab,))
            _check_table(rec, tab, dims, north, east, dict(zip(names, data)), dict(zip(xnames, extras)))
        rec.trivial = nn < 2 or ne < 2 or nd == 0
        rec.cls("grid/%s/nd=%d/nx=%d" % (case["form"], nd, nx))
        return
    if kind == "dataset_build":
        dims = ("northing", "easting")
        d0, d1 = _values(1, nn, ne, "float"), _values(2, nn, ne, "float")
        extras = {"x%d" % k: _values(7 + k, nn, ne, "float") for k in range(case["nx"])}
        if case["build"] == "coords_first":
            ds = xr.Dataset(coords={"easting": east, "northing": north})
            ds["var0"] = (dims, d0)
            ds["var1"] = (dims, d1)
            ds = ds.assign_coords({k: (dims, v) for k, v in extras.items()})
        elif case["build"] == "to_dataset":
            da = xr.DataArray(d0, coords={"easting": east, "northing": north}, dims=dims, name="var0")
            da = da.assign_coords({k: (dims, v) for k, v in extras.items()})
            ds = da.to_dataset()
            ds["var1"] = (dims, d1)
        else:
            ds = xr.Dataset({"var0": (dims, d0), "var1": (dims, d1)})
            ds = ds.assign_coords({k: (dims, v) for k, v in extras.items()})
            ds = ds.assign_coords(easting=east, northing=north)
        tab = call(rec, vd.grid_to_table, ds)
        if raised(tab):
            return rec.check(False, "grid_to_table raised %r" % (tab,))
        _check_table(rec, tab, dims, north, east, {"var0": d0, "var1": d1}, extras)
        rec.trivial = nn < 2 or ne < 2
        rec.cls("dataset_build/%s" % case["build"])
        return
    if kind == "dataarray":
        vals = _values(3, nn, ne, "float", case.get("mem", "C"))
        order = case["order"]
        if order == "ne":
            da = xr.DataArray(vals, coords={"northing": north, "easting": east}, dims=("northing", "easting"))
        else:
            # coordinates declared easting first; dims still (northing, easting)
            da = xr.DataArray(vals, coords={"easting": east, "northing": north}, dims=("northing", "easting"))
        extras = {}
        if case["nx"]:
            up = _values(9, nn, ne, "float", case.get("mem", "C"))
            da = da.assign_coords(upward=(("northing", "easting"), up))
            extras["upward"] = up
        colname = "scalars"
        if case["named"] in ("int0", "float0", "npint0"):
            colname = {"int0": 0, "float0": 0.0, "npint0": np.int64(0)}[case["named"]]
            da.name = colname
        elif case["named"]:
            da.name = colname = "temp"
        tab = call(rec, vd.grid_to_table, da)
        if raised(tab):
            return rec.check(False, "grid_to_table(DataArray) raised %r" % (tab,))
        _check_table(rec, tab, ("northing", "easting"), north, east, {colname: vals}, extras)
        if case["nx"]:
            # the DataArray of an extra coordinate itself (grid.upward): its name is one of its own non-index coordinates (round 9, seed C18-17)
            tabc = call(rec, vd.grid_to_table, da.coords["upward"])
            if raised(tabc):
                rec.check(False, "grid_to_table(grid.upward) raised %r" % (tabc,))
            else:
                _check_table(rec, tabc, ("northing", "easting"), north, east, {"upward": extras["upward"]}, {})
        if nn >= 3 or ne >= 3:
            # a SECOND grid in the same process with the same shape, dtypes and first / last axis values but other interior nodes (round 8,
            # seed C18-15: coordinate columns memoised on the end points of the axes): its table must carry its own coordinates
            north2, east2 = np.array(north, copy=True), np.array(east, copy=True)
            if nn >= 3:
                north2[1] = north[0] + (north[1] - north[0]) / 4
            if ne >= 3:
                east2[1] = east[0] + (east[1] - east[0]) * 3 / 4
            da2 = xr.DataArray(np.array(vals, copy=True), coords={"northing": north2, "easting": east2}, dims=("northing", "easting"), name=da.name)
            tab2 = call(rec, vd.grid_to_table, da2)
            if raised(tab2):
                rec.check(False, "grid_to_table(second DataArray) raised %r" % (tab2,))
            else:
                _check_table(rec, tab2, ("northing", "easting"), north2, east2, {colname: vals}, {})
        rec.trivial = nn < 2 or ne < 2
        rec.cls("dataarray/%s/%s" % (order, "named" if case["named"] else "unnamed"))
        return
    if kind == "roundtrip":
        extras = tuple(_values(5 + k, nn, ne, "float") for k in range(case["nx"]))
        axes = case.get("axes")
        if axes:
            # axis vectors of DIFFERENT dtypes and magnitudes (seed C18-10: one output array allocated like the other): float32 or
            # integer easting next to float64 northings of 7.5e6 that float32 cannot hold, and the reverse
            big = 7500000.0 + np.arange(nn, dtype=float) * 0.13
            small = np.arange(ne, dtype=float) * 2.0 + 1.0
            if axes == "f32_e":
                east, north = small.astype(np.float32), big
            elif axes == "int_e":
                east, north = small.astype(np.int64), big
            elif axes == "f32_n":
                east, north = 500000.0 + np.arange(ne, dtype=float) * 0.07, (np.arange(nn, dtype=float) * 3.0).astype(np.float32)
            else:
                east, north = 500000.0 + np.arange(ne, dtype=float) * 0.07, np.arange(nn, dtype=np.int32) * 3
            e2, n2 = np.meshgrid(east, north)     # numpy keeps each axis' own dtype
        c2 = (e2, n2) + extras
        one = call(rec, vd.utils.meshgrid_to_1d, c2)
        if raised(one):
            return rec.check(False, "meshgrid_to_1d raised %r" % (one,))
        rec.check(np.array_equal(one[0], east) and np.array_equal(one[1], north) and all(np.array_equal(a, b) for a, b in zip(one[2:], extras)),
                  "meshgrid_to_1d does not return the axis vectors")
        two = call(rec, vd.utils.meshgrid_from_1d, one)
        if raised(two):
            return rec.check(False, "meshgrid_from_1d raised %r" % (two,))
        rec.check(len(two) == len(c2) and all(np.array_equal(a, b) for a, b in zip(two, c2)), "meshgrid_from_1d(meshgrid_to_1d(c)) != c")
        if axes:
            direct = call(rec, vd.utils.meshgrid_from_1d, (east, north) + extras)
            rec.check(not raised(direct) and np.array_equal(np.asarray(direct[0], dtype=float), e2.astype(float)) and np.array_equal(np.asarray(direct[1], dtype=float), n2.astype(float)),
                      "meshgrid_from_1d of axes with dtypes %s / %s does not repeat the axis values exactly" % (east.dtype, north.dtype))
        three = call(rec, vd.utils.meshgrid_to_1d, two)
        rec.check(not raised(three) and all(np.array_equal(a, b) for a, b in zip(three, one)), "meshgrid_to_1d(meshgrid_from_1d(c)) != c")
        # arrays -> grid -> table returns the raveled inputs
        data = _values(1, nn, ne, "float")
        ds = call(rec, vd.make_xarray_grid, c2, data, "d", extra_coords_names=["x%d" % k for k in range(case["nx"])] or None)
        if raised(ds):
            return rec.check(False, "make_xarray_grid raised %r" % (ds,))
        tab = call(rec, vd.grid_to_table, ds)
        if raised(tab):
            return rec.check(False, "grid_to_table raised %r" % (tab,))
        rec.check(np.array_equal(tab["easting"].values, e2.ravel()) and np.array_equal(tab["northing"].values, n2.ravel())
                  and np.array_equal(tab["d"].values, data.ravel())
                  and all(np.array_equal(tab["x%d" % k].values, extras[k].ravel()) for k in range(case["nx"])),
                  "arrays -> grid -> table does not return the raveled inputs")
        rec.trivial = nn < 2 or ne < 2
        rec.cls("roundtrip")
        return
    if kind == "invalid":
        rec.trivial = True
        bad = case["bad"]
        data = _values(1, nn, ne, "float")
        if bad == "non_meshgrid_e":
            e_bad = e2.copy(); e_bad[-1, -1] += 1.0
            f = lambda: vd.make_xarray_grid((e_bad, n2), data, "d")
        elif bad == "non_meshgrid_n":
            n_bad = n2.copy(); n_bad[0, -1] -= 0.5
            f = lambda: vd.make_xarray_grid((e2, n_bad), data, "d")
        elif bad in ("row_n_varies", "row_n_varies_1d"):
            # shape (1, ne): northing changes along the single row
            e_row = east[None, :].copy(); n_row = (north[0] + np.arange(ne, dtype=float))[None, :]
            d_row = data[:1, :]
            f = (lambda: vd.make_xarray_grid((e_row, n_row), d_row, "d")) if bad == "row_n_varies" else (lambda: vd.utils.meshgrid_to_1d((e_row, n_row)))
        elif bad in ("col_e_varies", "col_e_varies_1d"):
            e_col = (east[0] + 2.0 * np.arange(nn, dtype=float))[:, None]; n_col = north[:, None].copy()
            d_col = data[:, :1]
            f = (lambda: vd.make_xarray_grid((e_col, n_col), d_col, "d")) if bad == "col_e_varies" else (lambda: vd.utils.meshgrid_to_1d((e_col, n_col)))
        elif bad in ("shear_wide", "shear_tall"):
            if bad == "shear_wide":
                ew, nw = np.meshgrid(np.linspace(0.0, 1.0e5, ne), np.linspace(0.0, 1.0, nn))
                nw = nw + 0.1 * np.arange(ne)[None, :] / max(ne - 1, 1)          # northing drifts by 0.1 along each row
            else:
                ew, nw = np.meshgrid(np.linspace(0.0, 1.0, ne), np.linspace(0.0, 2.0e5, nn))
                ew = ew + 0.05 * np.arange(nn)[:, None] / max(nn - 1, 1)         # easting drifts by 0.05 down each column
            f = lambda: vd.make_xarray_grid((ew, nw), data, "d")
        elif bad == "mixed":
            f = lambda: vd.make_xarray_grid((east, n2), data, "d")
        elif bad == "names_short":
            f = lambda: vd.make_xarray_grid((e2, n2), (data, data), ["d"])
        elif bad == "names_long":
            f = lambda: vd.make_xarray_grid((e2, n2), data, ["d", "e"])
        elif bad == "extra_names_short":
            f = lambda: vd.make_xarray_grid((e2, n2, data, data), data, "d", extra_coords_names="up")
        elif bad == "extra_names_long":
            f = lambda: vd.make_xarray_grid((e2, n2, data), data, "d", extra_coords_names=["up", "time", "quality"])
        elif bad == "extra_names_none":
            f = lambda: vd.make_xarray_grid((e2, n2, data), data, "d")
        else:
            f = lambda: vd.make_xarray_grid((e2, n2), data, None)
        got = call(rec, f)
        rec.check(raised(got) and isinstance(got.exc, ValueError), "%s must raise ValueError, got %r" % (bad, type(got)))
        rec.cls("refusal:" + bad)
        return
    raise ValueError(kind)


def _check_table(rec, tab, dims, north, east, data, extras):
    nn, ne = north.size, east.size
    rec.check(len(tab) == nn * ne, "table has %d rows, expected %d" % (len(tab), nn * ne))
    want_cols = set(dims) | set(data) | set(extras)
    rec.check(set(tab.columns) == want_cols, "table columns %r != %r" % (sorted(map(repr, tab.columns)), sorted(map(repr, want_cols))))
    if len(tab) != nn * ne or set(tab.columns) != want_cols:
        return
    ok = True
    for r in range(nn * ne):
        i, j = divmod(r, ne)
        if tab[dims[0]].values[r] != north[i] or tab[dims[1]].values[r] != east[j]:
            ok = False
        for name, arr in list(data.items()) + list(extras.items()):
            tv = tab[name].values[r]
            if not (tv == arr[i, j] or (tv != tv and arr[i, j] != arr[i, j])):
                ok = False
    rec.check(ok, "table rows are not the row-major cells with their own coordinates and values")
