"""
C15  Nearest-neighbour based results agree with brute-force distances.
"""
import itertools
import math
from fractions import Fraction as F

import numpy as np

from mc.util import call, raised

ID = "C15"
LEVEL = "model_checking"
RULE = (
    "Data coordinates in float and in integer dtypes (both, easting only with non-integer northings, northing only). Exhaustive product: data set in all k-subsets (k = 1..5; thorough 1..6) of the 9 integer points {0,1,3}x{0,2,7} x queries = all 209 nodes "
    "of the half-unit lattice over and around them (2-D, 1-D and 0-d forms) x k_neighbours = 1..k x reduction {mean, median, min, max} x data "
    "= distinct powers of two (a reduced value identifies its neighbour set); median_distance for k_nearest = 1..k-1 with and without an "
    "anisotropic and a non-separable (rotating) projection; distance_mask for maxdist = every exactly representable query-data distance (closed ball) and every "
    "midpoint between consecutive distinct distances x projection x form {array, grid with 1..2 variables}. Oracle: integer squared "
    "distances (x4); a tie at the k-th neighbour is detected exactly and any admissible neighbour set is accepted. "
    "Non-trivial: k >= 2 data points."
    " Added axes: integer dtypes per coordinate, projections (anisotropic, rotated, shrinking), parameter routes, caller overwriting the fitted arrays, scales 2^-30 / 2^20 and offset 2^23, four Dataset builds, scattered query order, extra coordinates for median_distance, 1e5 ... 1e6 query points with k = 12, 2, 7."
)
ASSUMPTIONS = ["only scipy's cKDTree path can run (pykdtree absent)", "equality thresholds are asserted only where the distance is an exactly "
               "representable number, so no verdict depends on how a square root was rounded"]

PTS = [(x, y) for y in (0, 2, 7) for x in (0, 1, 3)]
QE = [i / 2 for i in range(-2, 9)]
QN = [j / 2 for j in range(-2, 17)]
REDS = ["mean", "median", "min", "max"]


def bounds(tier, seed):
    return dict(points=PTS, subset_sizes=[1, 5 if tier == "quick" else 6], queries="11 x 19 half-unit lattice", reductions=REDS)


def cases(tier, seed):
    kmax = 5 if tier == "quick" else 6
    for k in range(1, kmax + 1):
        for sub in itertools.combinations(range(9), k):
            for kn in range(1, k + 1):
                for red in REDS:
                    if kn == 1 and red != "mean":
                        continue
                    yield dict(kind="knn", sub=list(sub), k=kn, red=red)
                    if red == "mean" and kn <= 2:
                        # the same geometry scaled by powers of two (coordinates of 1e-9 and 1e6) and moved to 2^23 (exact)
                        for tr in ([2.0 ** -30, 0.0], [2.0 ** 20, 0.0], [1.0, 2.0 ** 23]):
                            yield dict(kind="knn", sub=list(sub), k=kn, red=red, tr=tr)
                    if red == "mean":
                        for rep in ("int_e", "int_n", "int", "table_ne", "table_rev"):
                            yield dict(kind="knn", sub=list(sub), k=kn, red=red, rep=rep)
            for kn in range(1, k):
                for proj in (False, True, 2, 3):
                    for shape in ("1d", "2d"):
                        if shape == "2d" and k % 2:
                            continue
                        yield dict(kind="median_distance", sub=list(sub), k=kn, proj=proj, shape=shape)
                        if shape == "1d":
                            yield dict(kind="median_distance", sub=list(sub), k=kn, proj=proj, shape=shape, rep=("int_e", "int_n", "int", "table_ne", "table_rev")[(kn + len(sub) + sum(sub)) % 5])
            if k == 3 and sub == (0, 1, 2):
                # k x (number of query points) beyond 2^20 and 2^21 (seed C15-12: queries processed in chunks)
                for kn, shape in ((12, [300, 350]), (2, [1031, 1021]), (7, [1, 320000])):
                    yield dict(kind="knn_big", k=kn, shape=shape)
            if k <= (3 if tier == "quick" else 4):
                for proj in (False, True, 2, 3):
                    for form in ("array2d", "array1d", "grid1", "grid2", "array_scattered"):
                        yield dict(kind="mask", sub=list(sub), proj=proj, form=form)
                        if not proj:
                            # the same geometry at coordinate magnitudes of 1e-9 and 1e6 (powers of two: exact): seed C15-9, an
                            # absolute tolerance in the threshold test
                            for sc in (2.0 ** -30, 2.0 ** 20):
                                yield dict(kind="mask", sub=list(sub), proj=proj, form=form, sc=sc)
                        if form == "grid1":
                            # other ways of building the same Dataset: easting declared first (seed C15-10)
                            for build in ("to_dataset", "coords_first", "from_dataarray"):
                                yield dict(kind="mask", sub=list(sub), proj=proj, form=form, build=build)
                        if form in ("array1d", "grid2"):
                            yield dict(kind="mask", sub=list(sub), proj=proj, form=form, rep=("int_e", "int_n", "int")[(sum(sub) + int(proj)) % 3])
    yield dict(kind="mask_invalid")


def _d2x4(q, p, aniso=False):
    """4 x squared distance as an exact integer (half-unit queries, integer data).
    aniso: False (no projection), True / 1 (anisotropic scaling (2e, 3n)), 2 (non-separable shear/rotation (e + n, e - n))."""
    if aniso == 3:
        # shrinking projection (e/2, n/2): distances are half the unprojected ones; returned in units of 16 x squared distance
        dx = int(round(2 * (q[0] - p[0])))
        dy = int(round(2 * (q[1] - p[1])))
        return dx * dx + dy * dy
    if aniso == 2:
        dx = int(round(2 * (q[0] - p[0])))
        dy = int(round(2 * (q[1] - p[1])))
        return (dx + dy) ** 2 + (dx - dy) ** 2
    sx, sy = (2, 3) if aniso else (1, 1)
    dx = int(round(2 * sx * (q[0] - p[0])))
    dy = int(round(2 * sy * (q[1] - p[1])))   # data may sit on half units too (exact in these units)
    return dx * dx + dy * dy


def _reduce(red, vals):
    v = sorted(F(x) for x in vals)
    if red == "mean":
        return sum(v) / len(v)
    if red == "min":
        return v[0]
    if red == "max":
        return v[-1]
    m = len(v) // 2
    return v[m] if len(v) % 2 else (v[m - 1] + v[m]) / 2


def _aniso(e, n):
    return 2 * np.asarray(e), 3 * np.asarray(n)


def _rot(e, n):
    # mixes easting and northing: projecting the axis vectors of a grid is NOT the same as projecting its mesh (seed C15-r2_1)
    return np.asarray(e) + np.asarray(n), np.asarray(e) - np.asarray(n)


def _shrink(e, n):
    # maps to "kilometres": projected distances are SMALLER than unprojected ones (seed C15-r3_1: a bounding-box pre-filter in
    # unprojected units with maxdist in projected units)
    return np.asarray(e) / 2.0, np.asarray(n) / 2.0


def _projfn(proj):
    return {1: _aniso, True: _aniso, 2: _rot, 3: _shrink}[proj]


def run(case, rec):
    import verde as vd
    import xarray as xr

    kind = case["kind"]
    if kind == "mask_invalid":
        rec.trivial = True
        got = call(rec, vd.distance_mask, (np.array([0.0, 1.0]), np.array([0.0, 1.0])), 1.0)
        rec.check(raised(got) and isinstance(got.exc, ValueError), "distance_mask without coordinates or grid must raise")
        got = call(rec, vd.distance_mask, (np.array([0.0, 1.0]), np.array([0.0, 1.0])), 1.0, coordinates=(np.zeros((2, 2)), np.zeros((3, 2))))
        rec.check(raised(got) and isinstance(got.exc, ValueError), "distance_mask with mismatched coordinate shapes must raise")
        return
    if kind == "knn_big":
        k = case["k"]
        # 40 data points in general position (no two query-to-data distances tie), queries on a fine grid
        i = np.arange(40, dtype=float)
        de = 10.0 * np.modf(i * 0.6180339887498949)[0] + 0.013 * i
        dn = 7.0 * np.modf(i * 0.7548776662466927)[0] - 0.007 * i
        dv = 100.0 + 3.0 * i - 0.5 * (i % 7) ** 2
        est = vd.KNeighbors(k=k)
        if raised(call(rec, est.fit, (de, dn), dv)):
            return rec.check(False, "KNeighbors.fit raised")
        qe, qn = np.meshgrid(np.linspace(-0.5, 10.7, case["shape"][1]), np.linspace(-0.3, 7.4, case["shape"][0]))
        got = call(rec, est.predict, (qe, qn))
        if raised(got):
            return rec.check(False, "KNeighbors.predict raised %r" % (got,))
        got = np.asarray(got)
        if not rec.check(got.shape == qe.shape, "prediction shape %s != query shape %s" % (got.shape, qe.shape)):
            return
        nbad = 0
        first = None
        ntie = 0
        for r0 in range(0, qe.size, 50000):
            fe, fn = qe.ravel()[r0:r0 + 50000], qn.ravel()[r0:r0 + 50000]
            d2 = (fe[:, None] - de[None, :]) ** 2 + (fn[:, None] - dn[None, :]) ** 2
            order = np.argsort(d2, axis=1)
            ds_ = np.take_along_axis(d2, order, axis=1)
            unsure = (ds_[:, k] - ds_[:, k - 1]) <= 1e-9 * ds_[:, k]       # k-th and (k+1)-th neighbour practically tied: not compared
            want = dv[order[:, :k]].mean(axis=1)
            wrong = (np.abs(got.ravel()[r0:r0 + 50000] - want) > 1e-9 * np.abs(want)) & ~unsure
            ntie += int(unsure.sum())
            if wrong.any() and first is None:
                j = int(np.argmax(wrong))
                first = (float(fe[j]), float(fn[j]), float(got.ravel()[r0 + j]), float(want[j]))
            nbad += int(wrong.sum())
        rec.count("queries", int(qe.size))
        rec.count("big_queries_not_compared_near_ties", ntie)
        rec.check(nbad == 0, "KNeighbors(k=%d) on a %s query grid: %d of %d predictions are not the mean of the %d nearest data values (first: query (%r, %r) predicts %r, expected %r)"
                  % ((k, case["shape"], nbad, qe.size, k) + (first if first else (0, 0, 0, 0))))
        rec.cls("knn_big/k=%d" % k)
        return
    pts = [PTS[i] for i in case["sub"]]
    npts = len(pts)
    e = np.array([p[0] for p in pts], dtype=float)
    n = np.array([p[1] for p in pts], dtype=float)
    # representation of the (integer-valued) data coordinates: float, integer dtype for the easting only (mixed dtypes), for both,
    # or for the northing only (added after seed C15-2: a k-d tree helper that allocated its point matrix with the dtype of the
    # first coordinate array); rotates with the case so that every family sees every representation
    rep = case.get("rep", "float")
    if rep == "int_e":
        e = e.astype(np.int64)
        n = n + 0.5   # non-integer northings next to an integer-dtype easting: a truncating cast changes them
        pts = [(p[0], p[1] + 0.5) for p in pts]
    elif rep == "int_n":
        n = n.astype(np.int32)
    elif rep == "int":
        e, n = e.astype(np.int64), n.astype(np.int64)
    elif rep == "table_ne":
        # views of ONE (N, 2) table with the columns in (northing, easting) order (round 8, seed C08-16)
        tab = np.column_stack([n, e])
        e, n = tab[:, 1], tab[:, 0]
    elif rep == "table_rev":
        tab = np.column_stack([e, n])[::-1].copy()
        e, n = tab[::-1, 0], tab[::-1, 1]
    rec.trivial = npts < 2
    if kind == "knn":
        k, red = case["k"], case["red"]
        data = np.array([2.0 ** i for i in range(npts)])
        # the route by which k and the reduction reach the estimator rotates with the case
        route = ("ctor", "set_params", "attribute", "clone")[(len(case["sub"]) + k + sum(case["sub"])) % 4]
        if route == "ctor":
            est = vd.KNeighbors(k=k, reduction=getattr(np, red))
        elif route == "clone":
            from sklearn.base import clone
            est = clone(vd.KNeighbors(k=k, reduction=getattr(np, red)))
        else:
            est = vd.KNeighbors(k=k + 2, reduction=np.min if red != "min" else np.max)
            if route == "set_params":
                est.set_params(k=k, reduction=getattr(np, red))
            else:
                est.k, est.reduction = k, getattr(np, red)
        tsc, toff = case.get("tr", (1.0, 0.0))
        e_fit, n_fit, d_fit = e * tsc + toff, n * tsc - toff, data.copy()
        if raised(call(rec, est.fit, (e_fit, n_fit), d_fit)):
            return rec.check(False, "KNeighbors.fit raised")
        # the caller reuses its buffers after the fit: the fitted estimator must not depend on them any more (seed C15-8)
        e_fit[...] = e_fit[::-1].copy() * 3 + 1
        n_fit[...] = 0
        d_fit[...] = -7.0
        qe, qn = np.meshgrid(np.array(QE), np.array(QN))
        got = call(rec, est.predict, (qe * tsc + toff, qn * tsc - toff))
        if raised(got):
            return rec.check(False, "KNeighbors.predict raised %r" % (got,))
        got = np.asarray(got)
        if not rec.check(got.shape == qe.shape, "prediction shape %s != query shape %s" % (got.shape, qe.shape)):
            return
        nties = 0
        bad = None
        for idx in np.ndindex(qe.shape):
            q = (float(qe[idx]), float(qn[idx]))
            ds = sorted((_d2x4(q, p), i) for i, p in enumerate(pts))
            if k < npts and ds[k - 1][0] == ds[k][0]:
                nties += 1
                dk = ds[k - 1][0]
                sure = [i for d, i in ds if d < dk]
                tied = [i for d, i in ds if d == dk]
                need = k - len(sure)
                adm = {_reduce(red, [data[i] for i in sure + list(c)]) for c in itertools.combinations(tied, need)}
            else:
                adm = {_reduce(red, [data[i] for d, i in ds[:k]])}
            g = float(got[idx])
            if not any(abs(g - float(a)) <= 4 * math.ulp(abs(float(a))) for a in adm):
                bad = (q, g, sorted(float(a) for a in adm))
        rec.check(bad is None, "KNeighbors(k=%d, %s) at %s predicts %s, the %d nearest data points give %s" % ((k, red) + (bad if bad else (0, 0, 0))[:2] + (k,) + ((bad[2],) if bad else (0,))))
        rec.count("queries", int(qe.size))
        rec.count("queries_with_tie_at_kth", nties)
        # 1-d and 0-d forms agree with the 2-d form
        g1 = call(rec, est.predict, ((qe * tsc + toff).ravel(), (qn * tsc - toff).ravel()))
        rec.check(not raised(g1) and np.asarray(g1).shape == (qe.size,) and np.array_equal(np.asarray(g1), got.ravel()), "1-D query differs from the 2-D query")
        # the same 2-D query stored column-major (Fortran copies; transposed views of an "ij" mesh): round 8, seed C15-16
        qx, qy = qe * tsc + toff, qn * tsc - toff
        for nm_, (a_, b_) in (("Fortran-ordered", (np.asfortranarray(qx), np.asfortranarray(qy))), ("transposed-view", (np.ascontiguousarray(qx.T).T, np.ascontiguousarray(qy.T).T)),
                              ("mixed-layout", (qx, np.asfortranarray(qy)))):
            gF = call(rec, est.predict, (a_, b_))
            rec.check(not raised(gF) and np.asarray(gF).shape == qe.shape and np.array_equal(np.asarray(gF), got), "%s 2-D query differs from the C-ordered 2-D query" % nm_)
        for idx in ((0, 0), (7, 3), (18, 10)):
            g0 = call(rec, est.predict, (np.array(qe[idx] * tsc + toff), np.array(qn[idx] * tsc - toff)))
            rec.check(not raised(g0) and np.asarray(g0).shape == () and float(g0) == float(got[idx]), "0-d query %s: %r vs %r" % (idx, g0, got[idx]))
        rec.cls("knn/k=%d/%s" % (k, red))
        return
    if kind == "median_distance":
        k, proj = case["k"], case["proj"]
        rs = (lambda a: a.reshape(2, -1)) if case["shape"] == "2d" else (lambda a: a)
        if case["shape"] == "2d" and (k + sum(case["sub"])) % 2:
            rs = lambda a: np.asfortranarray(a.reshape(2, -1))     # same elements in C reading order, column-major memory (seed C15-16)
        kw = dict(k_nearest=k)
        if proj:
            kw["projection"] = _projfn(proj)
        cm = (rs(e), rs(n))
        if (k + len(pts)) % 2:
            # appended vertical / time coordinates are ignored: distances are horizontal (seed C15-11)
            cm = cm + (rs(np.arange(npts, dtype=float) * 37.0 + 5.0), rs(-np.arange(npts, dtype=float) ** 2))
        got = call(rec, vd.median_distance, cm, **kw)
        if raised(got):
            return rec.check(False, "median_distance raised %r" % (got,))
        got = np.asarray(got)
        if not rec.check(got.shape == rs(e).shape, "shape %s != %s" % (got.shape, rs(e).shape)):
            return
        gf = got.ravel()
        for i, p in enumerate(pts):
            others = sorted(_d2x4(p, q, proj) for j, q in enumerate(pts) if j != i)[:k]
            dists = [math.sqrt(v) / (4 if proj == 3 else 2) for v in others]
            m = len(dists) // 2
            want = dists[m] if len(dists) % 2 else (dists[m - 1] + dists[m]) / 2
            rec.check(abs(gf[i] - want) <= 8 * math.ulp(max(want, 1.0)), "median distance of point %s to its %d nearest OTHER points is %r, got %r" % (p, k, want, gf[i]))
        rec.cls("median_distance/k=%d/%s" % (k, {0: "plain", 1: "aniso", 2: "rot", 3: "shrink"}[int(proj)]))
        return
    if kind == "mask":
        proj, form = case["proj"], case["form"]
        qe, qn = np.meshgrid(np.array(QE), np.array(QN))
        mind = {}
        for idx in np.ndindex(qe.shape):
            q = (float(qe[idx]), float(qn[idx]))
            mind[idx] = min(_d2x4(q, p, proj) for p in pts)
        distinct = sorted(set(mind.values()))
        unit = 4 if proj == 3 else 2       # the integers are (unit * distance)^2
        thresholds = []
        for v in distinct:
            r = math.isqrt(v)
            if r * r == v:
                thresholds.append(("eq", r / unit))  # exactly representable distance: closed ball must include it
        roots = [math.sqrt(v) / unit for v in distinct]
        for a, b in zip(roots[:-1], roots[1:]):
            thresholds.append(("mid", (a + b) / 2))
        thresholds.append(("mid", roots[-1] + 1.0))
        if distinct[0] > 0:
            thresholds.append(("mid", roots[0] / 2))
        if form in ("array1d", "grid2", "array_scattered"):
            thresholds = thresholds[::3]
        kw = {}
        if proj:
            kw["projection"] = _projfn(proj)
        sc = case.get("sc", 1.0)
        for kind_t, t in thresholds:
            want = np.zeros(qe.shape, dtype=bool)
            t4 = F(t) * F(t) * unit * unit
            for idx, v in mind.items():
                want[idx] = v <= t4
            if form.startswith("array"):
                a, b = (qe, qn) if form == "array2d" else (qe.ravel(), qn.ravel())
                if form == "array2d" and len(thresholds) % 2:
                    a, b = np.asfortranarray(qe), np.ascontiguousarray(qn.T).T
                if form == "array_scattered":
                    # the query points in an order that is neither sorted nor a raveled mesh (seed C15-13: results put back with the
                    # forward instead of the inverse permutation)
                    perm_ = (np.arange(qe.size) * 37 + 11) % qe.size
                    a, b = qe.ravel()[perm_], qn.ravel()[perm_]
                if sc != 1.0:
                    got = call(rec, vd.distance_mask, (e * sc, n * sc), t * sc, coordinates=(a * sc, b * sc), **kw)
                else:
                    got = call(rec, vd.distance_mask, (e, n), t, coordinates=(a, b), **kw)
                if raised(got):
                    rec.check(False, "distance_mask raised %r" % (got,))
                    return
                got = np.asarray(got)
                rec.check(got.dtype == bool and got.shape == a.shape, "mask must be boolean in the query shape")
                w = want if form == "array2d" else (want.ravel()[perm_] if form == "array_scattered" else want.ravel())
                diff = np.argwhere(got != w)
                rec.check(diff.size == 0, "distance_mask(maxdist=%r [%s]) wrong at query %s: nearest data point at distance^2*4 = %s"
                          % (t, kind_t, [(float(a[tuple(i)]), float(b[tuple(i)])) for i in diff[:3]], [mind[tuple(i)] if form == "array2d" else None for i in diff[:3]]))
            else:
                vals = 100.0 * np.arange(qe.shape[0])[:, None] + np.arange(qe.shape[1])[None, :] + 1.0
                dvars = {"a": (("northing", "easting"), vals)}
                if form == "grid2":
                    dvars["b"] = (("northing", "easting"), -vals)
                build = case.get("build", "dataset")
                ce_, cn_ = np.array(QE) * sc, np.array(QN) * sc
                if build == "to_dataset":
                    grid = xr.DataArray(vals, coords={"easting": ce_, "northing": cn_}, dims=("northing", "easting")).to_dataset(name="a")
                elif build == "from_dataarray":
                    grid = xr.Dataset({"a": xr.DataArray(vals, coords={"easting": ce_, "northing": cn_}, dims=("northing", "easting"))})
                elif build == "coords_first":
                    grid = xr.Dataset(coords={"easting": ce_, "northing": cn_})
                    grid["a"] = (("northing", "easting"), vals)
                else:
                    grid = xr.Dataset(dvars, coords={"easting": ce_, "northing": cn_})
                got = call(rec, vd.distance_mask, (e * sc, n * sc) if sc != 1.0 else (e, n), t * sc, grid=grid, **kw)
                if raised(got):
                    rec.check(False, "distance_mask(grid) raised %r" % (got,))
                    return
                for name, (_, src) in dvars.items():
                    gv = np.asarray(got[name].values)
                    ok = gv.shape == want.shape and bool(np.all(np.isnan(gv) == ~want)) and bool(np.all(gv[want] == np.asarray(src)[want]))
                    rec.check(ok, "grid form (variable %s, maxdist %r): blanked cells are not exactly the cells where the array form is False" % (name, t))
            rec.count("thresholds", 1)
        rec.cls("mask/%s/%s" % (form, {0: "plain", 1: "aniso", 2: "rot", 3: "shrink"}[int(proj)]))
        return
    raise ValueError(kind)
