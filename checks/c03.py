"""
C03  Predictions evaluate the documented analytic models with the fitted parameters.
"""
import decimal
import itertools
import math
import warnings

import numpy as np

from mc.util import call, raised, pick_frames, permuted_series
from models import numref as R

ID = "C03"
LEVEL = "model_checking"
RULE = (
    "Exhaustive product over explicit lattices: (observation, force) pairs at distance r in {0, 1e-12..1e8 by decades, 0.5, 1-ulp, 1, "
    "1+ulp, 2, e-ulp, e, e+ulp, 3} x 5 directions x mindist {0, 1e-3, 0.5, 10} x Poisson {-1,-.5,0,.25,.5,1} x frames (force at the "
    "origin / offset) x query shapes 0-d/1-d/2-d, every entry of the public jacobian compared with 50-digit decimal evaluation of the "
    "documented formula; predict with externally set parameters (unit force vectors + one pair) against jacobian @ force; bitwise "
    "translation invariance on dyadic coordinates; Trend degrees 0..6 with unit coefficient vectors on an integer lattice (exact); "
    "CheckerBoard regions x amplitudes x default/explicit wavelengths; Linear/Cubic against directly built SciPy interpolators on all "
    "4..5-subsets of a general-position integer set under both rescale settings. Non-trivial: every case except pure refusals."
    " Added axes: square non-symmetric Jacobians, one- and two-point queries, Trend routes, 'fitted' cases (force and data coordinates as arrays / permuted-index Series / lists / 2-D arrays: predict = sum_j force_j g), SciPy gridders with anisotropy 1 ... 3e4 and 1e-6 and with repeated stations."
)
ASSUMPTIONS = ["per-entry tolerance 64 eps (r + r^2 (1 + |ln r|)) for the biharmonic kernel (forward error bound of both implemented "
               "branches) and 64 eps (|(3-nu) ln r| + 4|1+nu| + 1) for the elastic kernels",
               "only the numpy engine is installed (numba kernels cannot be executed here)"]

E_ = math.e
RS = [0.0] + [10.0 ** k for k in range(-12, 9)] + [0.5, np.nextafter(1.0, 0), 1.0, np.nextafter(1.0, 2), 2.0,
                                                    np.nextafter(E_, 0), E_, np.nextafter(E_, 3), 3.0]
ANG = [0.0, math.pi / 2, 0.3, 2.1, 4.0]
MIND = [0.0, 1e-3, 0.5, 10.0]
NUS = [-1.0, -0.5, 0.0, 0.25, 0.5, 1.0]
FRAMES = [[0.0, 0.0], [1024.0, -512.0], [1e6, 3e5]]
G9 = [(0, 0), (1, 10), (12, 3), (6, 8), (5, 11), (10, 9), (7, 11), (0, 6), (12, 9)]

D = decimal.Decimal
CTX = decimal.Context(prec=50)


RS_T = sorted(set(RS + [10.0 ** (k / 2.0) for k in range(-24, 17)] + [0.25, 0.75, 0.9, 0.99, 1.01, 1.1, 1.5, 2.5, 2.7, 2.75, 4.0, 7.0]))
ANG_T = ANG + [math.pi, 3 * math.pi / 2, 0.7853981633974483, 5.5]
NUS_T = [-1.0, -0.75, -0.5, -0.25, 0.0, 0.25, 0.5, 0.75, 1.0]
MIND_T = [0.0, 1e-6, 1e-3, 0.5, 1.0, 10.0, 1e4]


def bounds(tier, seed):
    return dict(distances=[float(r) for r in (RS if tier == "quick" else RS_T)], angles=(ANG if tier == "quick" else ANG_T),
                mindist=(MIND if tier == "quick" else MIND_T), poisson=(NUS if tier == "quick" else NUS_T), frames=pick_frames(FRAMES, tier, seed),
                trend_degrees=[0, 6])


def cases(tier, seed):
    for fr in pick_frames(FRAMES, tier, seed):
        for md in (MIND if tier == "quick" else MIND_T):
            for shape in ("1d", "2d", "0d"):
                yield dict(kind="spline", frame=fr, mindist=md, shape=shape, dense=(tier == "thorough"))
            for nu in (NUS if tier == "quick" else NUS_T):
                for shape in ("1d", "2d"):
                    yield dict(kind="vector", frame=fr, mindist=md, nu=nu, shape=shape, dense=(tier == "thorough"))
    for md in MIND:
        for nsq in (2, 3, 5):
            yield dict(kind="square", mindist=md, n=nsq)
    # after a FIT with force coordinates / data coordinates in other containers, predict is still sum_j force_j g(|x - f_j|)
    # (seed C03-9: force coordinates kept as pandas Series and indexed by label in predict only)
    for md in (0.0, 0.5):
        for fc in ("array", "series", "list", "2d", "none"):
            for cc in ("array", "series", "2d"):
                for est in ("Spline", "VectorSpline2D"):
                    yield dict(kind="fitted", mindist=md, fc=fc, cc=cc, est=est)
    for t in ([0.0, 0.0], [4.0, -8.0], [0.5, 1024.0], [-3.25, 2.0 ** 20]):
        for md in (0.0, 0.5):
            yield dict(kind="translate", shift=t, mindist=md)
    for deg in range(0, 7):
        for shape in ("1d", "2d", "0d"):
            yield dict(kind="trend", degree=deg, shape=shape)
        # the degree reached through set_params / attribute assignment after construction with another degree (seed C03-r2_1)
        yield dict(kind="trend", degree=deg, shape="1d", route="set_params")
        yield dict(kind="trend", degree=deg, shape="1d", route="attribute")
        yield dict(kind="trend", degree=deg, shape="1d", route="clone")
    yield dict(kind="trend_bad")
    for region in ([0.0, 5000.0, -5000.0, 0.0], [-2.0, 6.0, 1.0, 2.0], [10.0, 11.0, -8.0, 8.0]):
        for amp in (1000.0, -2.5):
            for we in (None, 3.0):
                for wn in (None, 0.75):
                    yield dict(kind="checker", region=region, amp=amp, we=we, wn=wn)
    for k in (4, 5):
        for sub in itertools.combinations(range(len(G9)), k):
            for cls in ("Linear", "Cubic"):
                for rescale in (False, True):
                    for aniso in (1.0, 100.0, 3.0e4, 1.0e-6):     # the last two: regions 1e4 ... 1e6 times wider than tall, or taller than wide (seed C03-10)
                        if tier == "quick" and k == 5 and (sum(sub) + int(aniso)) % 3:
                            continue
                        if tier == "quick" and aniso in (3.0e4, 1.0e-6) and sum(sub) % 4:
                            continue
                        yield dict(kind="scipy", sub=list(sub), cls=cls, rescale=rescale, aniso=aniso)
                        if aniso == 1.0 and sum(sub) % 3 == 0:
                            # a repeated station with another value: whatever SciPy does with it is what verde must return (seed C03-11)
                            yield dict(kind="scipy", sub=list(sub) + [sub[1]], cls=cls, rescale=rescale, aniso=aniso)
                            yield dict(kind="scipy", sub=[sub[-1]] + list(sub), cls=cls, rescale=rescale, aniso=aniso)


def _dec(x):
    return CTX.create_decimal(D(float(x)))


def _r_exact(dx, dy, mindist):
    r2 = CTX.add(CTX.multiply(_dec(dx), _dec(dx)), CTX.multiply(_dec(dy), _dec(dy)))
    return CTX.add(CTX.sqrt(r2), _dec(mindist))


def _g_exact(r):
    if r == 0:
        return D(0)
    return CTX.multiply(CTX.multiply(r, r), CTX.subtract(CTX.ln(r), D(1)))


def _points(frame, dense=False):
    """observation points around the single force at `frame`, one per (r, angle)."""
    fx, fy = frame
    obs = []
    for r in (RS_T if dense else RS):
        for a in (ANG_T if dense else ANG):
            if r == 0.0 and a != 0.0:
                continue
            obs.append((fx + r * math.cos(a), fy + r * math.sin(a)))
    return obs


def _shape(arr, shape):
    arr = np.asarray(arr, dtype=float)
    if shape == "2d":
        pad = (-arr.size) % 4
        return np.concatenate([arr, arr[:pad]]).reshape(4, -1)
    return arr


def run(case, rec):
    import verde as vd

    kind = case["kind"]
    if kind in ("spline", "vector"):
        fx, fy = case["frame"]
        md = case["mindist"]
        obs = _points(case["frame"], case.get("dense", False))
        forces = [(fx, fy), (fx + 1.0, fy - 2.0), (fx - 0.75, fy + 0.5)]
        oe = np.array([p[0] for p in obs]); on = np.array([p[1] for p in obs])
        fe = np.array([p[0] for p in forces]); fn = np.array([p[1] for p in forces])
        nobs, nf = oe.size, fe.size
        if kind == "spline":
            est = vd.Spline(mindist=md if md else None)
            J = call(rec, est.jacobian, (oe, on), (fe, fn))
            if raised(J):
                return rec.check(False, "Spline.jacobian raised %r" % (J,))
            J = np.asarray(J)
            rec.check(J.shape == (nobs, nf), "jacobian shape %s != (%d, %d)" % (J.shape, nobs, nf))
            rec.check(bool(np.all(np.isfinite(J))), "jacobian not finite (coincident points included)")
            worst = 0.0
            for i in range(nobs):
                for j in range(nf):
                    dx, dy = float(oe[i] - fe[j]), float(on[i] - fn[j])
                    r = _r_exact(dx, dy, md)
                    want = _g_exact(r)
                    rf = float(r)
                    tol = 64 * R.EPS * (rf + rf * rf * (1 + abs(math.log(rf)) if rf > 0 else 0.0)) + 1e-300
                    err = abs(D(float(J[i, j])) - want)
                    ratio = float(err) / tol
                    worst = max(worst, ratio)
                    if ratio > 1:
                        rec.check(False, "g at distance %r (mindist %r): jacobian %r, formula r^2(ln r - 1) = %r" % (rf, md, float(J[i, j]), float(want)))
            rec.ratio(worst)
            rec.count("kernel_entries", nobs * nf)
            # predict with externally set parameters
            est.force_coords_ = (fe, fn)
            est.region_ = (0, 1, 0, 1)
            vecs = [np.eye(nf)[k] for k in range(nf)] + [np.array([2.0, -3.0, 0.5])]
            for v in vecs:
                est.force_ = v
                if case["shape"] == "0d":
                    outs = [call(rec, est.predict, (np.array(oe[i]), np.array(on[i]))) for i in (0, 7, nobs - 1)]
                    for i, o in zip((0, 7, nobs - 1), outs):
                        if raised(o):
                            rec.check(False, "predict(0-d) raised %r" % (o,))
                            continue
                        want = float(J[i] @ v)
                        sc = float(np.abs(J[i]) @ np.abs(v)) + 1e-300
                        rec.check(np.asarray(o).shape == () and abs(float(o) - want) <= 16 * R.EPS * sc, "predict(0-d) %r != jacobian @ force %r" % (o, want))
                    continue
                qe, qn = _shape(oe, case["shape"]), _shape(on, case["shape"])
                p = call(rec, est.predict, (qe, qn))
                if raised(p):
                    rec.check(False, "predict raised %r" % (p,))
                    continue
                p = np.asarray(p)
                rec.check(p.shape == qe.shape, "predict shape %s != query shape %s" % (p.shape, qe.shape))
                want = (J @ v)
                sc = (np.abs(J) @ np.abs(v)) + 1e-300
                got = p.ravel()[:nobs]
                rec.check(bool(np.all(np.abs(got - want) <= 16 * R.EPS * sc)), "predict != jacobian @ force for force vector %s" % v.tolist())
            for v in vecs[-2:]:
                est.force_ = v
                for sel in ([0], [1, nobs - 1]):
                    p = call(rec, est.predict, (oe[sel], on[sel]))
                    ok = (not raised(p)) and np.asarray(p).shape == (len(sel),) and bool(np.all(np.abs(np.asarray(p) - (J @ v)[sel]) <= 16 * R.EPS * ((np.abs(J) @ np.abs(v))[sel] + 1e-300)))
                    rec.check(ok, "Spline.predict on %d query point(s) with %d forces != jacobian @ force" % (len(sel), nf))
            rec.cls("spline/mindist=%g/%s" % (md, case["shape"]))
            return
        # ---------------- vector spline
        nu = case["nu"]
        est = vd.VectorSpline2D(poisson=nu, mindist=md)
        if md == 0.0:
            keep = [i for i in range(nobs) if all((oe[i] - fe[j]) != 0 or (on[i] - fn[j]) != 0 for j in range(nf))]
            oe, on = oe[keep], on[keep]
            nobs = oe.size
        J = call(rec, est.jacobian, (oe, on), (fe, fn))
        if raised(J):
            return rec.check(False, "VectorSpline2D.jacobian raised %r" % (J,))
        J = np.asarray(J)
        rec.check(J.shape == (2 * nobs, 2 * nf), "jacobian shape %s != (%d, %d)" % (J.shape, 2 * nobs, 2 * nf))
        rec.check(bool(np.all(np.isfinite(J))), "elastic jacobian not finite")
        worst = 0.0
        for i in range(nobs):
            for j in range(nf):
                dx, dy = float(oe[i] - fe[j]), float(on[i] - fn[j])
                r = _r_exact(dx, dy, md)
                lnr = CTX.multiply(_dec(3.0 - nu) if False else CTX.subtract(D(3), _dec(nu)), CTX.ln(r))
                q = CTX.divide(CTX.add(D(1), _dec(nu)), CTX.multiply(r, r))
                ee = CTX.add(lnr, CTX.multiply(q, CTX.multiply(_dec(dy), _dec(dy))))
                nn = CTX.add(lnr, CTX.multiply(q, CTX.multiply(_dec(dx), _dec(dx))))
                ne = CTX.multiply(D(-1), CTX.multiply(q, CTX.multiply(_dec(dx), _dec(dy))))
                rf = float(r)
                tol = 64 * R.EPS * (abs((3 - nu) * math.log(rf)) + 4 * abs(1 + nu) + 1)
                for name, got, want in (("ee", J[i, j], ee), ("nn", J[nobs + i, nf + j], nn), ("ne", J[i, nf + j], ne), ("en", J[nobs + i, j], ne)):
                    ratio = float(abs(D(float(got)) - want)) / tol
                    worst = max(worst, ratio)
                    if ratio > 1:
                        rec.check(False, "elastic green_%s at offset (%r, %r), mindist %r, poisson %r: jacobian %r, Sandwell-Wessel formula %r"
                                  % (name, dx, dy, md, nu, float(got), float(want)))
        rec.ratio(worst)
        rec.count("kernel_entries", 4 * nobs * nf)
        est.force_coords = (fe, fn)
        est.region_ = (0, 1, 0, 1)
        vecs = [np.eye(2 * nf)[k] for k in range(2 * nf)] + [np.array([2.0, -3.0, 0.5, 1.5, 0.25, -1.0])]
        qe, qn = _shape(oe, case["shape"]), _shape(on, case["shape"])
        for v in vecs:
            est.force_ = v
            p = call(rec, est.predict, (qe, qn))
            if raised(p):
                rec.check(False, "VectorSpline2D.predict raised %r" % (p,))
                continue
            rec.check(isinstance(p, tuple) and len(p) == 2 and all(np.asarray(c).shape == qe.shape for c in p), "predict must return 2 arrays in the query shape")
            want = J @ v
            sc = np.abs(J) @ np.abs(v) + 1e-300
            got = np.concatenate([np.asarray(p[0]).ravel()[:nobs], np.asarray(p[1]).ravel()[:nobs]])
            rec.check(bool(np.all(np.abs(got - want) <= 16 * R.EPS * sc)), "predict != jacobian @ force (east rows/cols first) for force %s" % v.tolist())
        # fewer query points than forces (1, 2 and a 0-d point against 3 forces): seed C03-r3_2 took another branch there
        for v in vecs[-2:]:
            est.force_ = v
            for sel in ([0], [1, nobs - 1]):
                p = call(rec, est.predict, (oe[sel], on[sel]))
                if raised(p):
                    rec.check(False, "VectorSpline2D.predict on %d points raised %r" % (len(sel), p))
                    continue
                want = np.concatenate([(J @ v)[sel], (J @ v)[[nobs + i for i in sel]]])
                sc = np.concatenate([(np.abs(J) @ np.abs(v))[sel], (np.abs(J) @ np.abs(v))[[nobs + i for i in sel]]]) + 1e-300
                got = np.concatenate([np.asarray(p[0]).ravel(), np.asarray(p[1]).ravel()])
                rec.check(got.shape == want.shape and bool(np.all(np.abs(got - want) <= 16 * R.EPS * sc)), "predict on %d query point(s) with %d forces != jacobian @ force" % (len(sel), nf))
            p0 = call(rec, est.predict, (np.array(oe[1]), np.array(on[1])))
            rec.check(not raised(p0) and np.asarray(p0[0]).shape == () and abs(float(p0[0]) - (J @ v)[1]) <= 16 * R.EPS * ((np.abs(J) @ np.abs(v))[1] + 1e-300),
                      "0-d query with %d forces != jacobian @ force" % nf)
        rec.cls("vector/mindist=%g/nu=%g" % (md, nu))
        return
    if kind == "square":
        # as many forces as observation points, at DIFFERENT places: the matrix is square but not symmetric
        # (added after seed C04-2: an upper-triangle-and-mirror shortcut for square Jacobians)
        md, k = case["mindist"], case["n"]
        oe = np.array([0.0, 1.0, 2.5, -1.0, 4.0][:k]); on = np.array([0.0, 2.0, 0.5, 3.0, -2.0][:k])
        fe = np.array([0.5, 3.0, -2.0, 1.5, 0.25][:k]); fn = np.array([1.0, -1.0, 0.75, 4.0, 2.0][:k])
        sp = vd.Spline(mindist=md if md else None)
        for (ae, an, be, bn, what) in ((oe, on, fe, fn, "obs x forces"), (fe, fn, oe, on, "forces x obs"), (oe, on, oe[::-1].copy(), on[::-1].copy(), "same points, reversed order")):
            J = call(rec, sp.jacobian, (ae, an), (be, bn))
            if raised(J):
                return rec.check(False, "Spline.jacobian raised %r" % (J,))
            want = R.spline_design(ae, an, be, bn, md)
            rec.check(np.asarray(J).shape == want.shape and bool(np.all(np.abs(np.asarray(J) - want) <= 64 * R.EPS * (1 + np.abs(want)))),
                      "square Jacobian (%s) differs from g(|x_i - f_j|): %s vs %s" % (what, np.asarray(J).tolist(), want.tolist()))
        if md > 0:
            vs = vd.VectorSpline2D(mindist=md, poisson=0.5)
            J = call(rec, vs.jacobian, (oe, on), (fe, fn))
            want = R.elastic_design(oe, on, fe, fn, md, 0.5)
            rec.check(not raised(J) and bool(np.all(np.abs(np.asarray(J) - want) <= 64 * R.EPS * (1 + np.abs(want)))), "square elastic Jacobian differs from the formula")
        rec.cls("square")
        return
    if kind == "fitted":
        md = case["mindist"]
        oe = np.array([0.0, 1.0, 2.5, -1.0, 4.0, 3.0]); on = np.array([0.0, 2.0, 0.5, 3.0, -2.0, 1.5])
        fe = np.array([0.5, 3.0, -2.0, 1.5]); fn = np.array([1.0, -1.0, 0.75, 4.0])
        qe = np.array([0.25, 2.0, -0.5, 3.5, 1.0]); qn = np.array([0.5, 0.25, 2.0, -1.0, 3.0])
        d = 2.0 * oe - on + 0.5 * oe * on + 1.0
        vec = case["est"] == "VectorSpline2D"
        if vec and md == 0:
            md = 0.25
        form = {"array": lambda a, k=0: a.copy(), "series": lambda a, k=0: permuted_series(a.copy(), k), "list": lambda a, k=0: a.tolist(),
                "2d": lambda a, k=0: (a.reshape(2, -1) if k == 0 else np.asfortranarray(a.reshape(2, -1)))}
        fc = None if case["fc"] == "none" else (form[case["fc"]](fe, 0), form[case["fc"]](fn, 1))
        coords = (form[case["cc"]](oe, 0), form[case["cc"]](on, 1))
        with warnings.catch_warnings():
            warnings.simplefilter("ignore")
            est = vd.VectorSpline2D(mindist=md, poisson=0.25, force_coords=fc, damping=1e-3) if vec else vd.Spline(mindist=md if md else None, force_coords=fc, damping=1e-3)
            dd = (lambda a: a.reshape(2, -1)) if case["cc"] == "2d" else (lambda a: a)
            fit = call(rec, est.fit, coords, (dd(d), dd(-d + oe)) if vec else dd(d))
        if raised(fit):
            return rec.check(False, "fit raised %r" % (fit,))
        gfe, gfn = (oe, on) if fc is None else (fe, fn)
        Jq = R.elastic_design(qe, qn, gfe, gfn, md, 0.25) if vec else R.spline_design(qe, qn, gfe, gfn, md)
        force = np.asarray(est.force_, dtype=float)
        rec.check(force.shape == (Jq.shape[1],), "force_ has shape %s, expected (%d,)" % (force.shape, Jq.shape[1]))
        p = call(rec, est.predict, (qe, qn))
        if raised(p) or force.shape != (Jq.shape[1],):
            return rec.check(not raised(p), "predict raised %r" % (p,))
        got = np.concatenate([np.asarray(c, dtype=float) for c in p]) if vec else np.asarray(p, dtype=float)
        want = Jq @ force
        tol = 64 * R.EPS * (np.abs(Jq) @ np.abs(force)) + 1e-300
        rec.ratio(float(np.max(np.abs(got - want) / tol)))
        rec.check(bool(np.all(np.abs(got - want) <= tol)), "%s fitted with force_coords as %s and coordinates as %s: predict %s != sum_j force_j g(|x - f_j|) %s"
                  % (case["est"], case["fc"], case["cc"], got.tolist(), want.tolist()))
        rec.cls("fitted/%s/%s" % (case["est"], case["fc"]))
        return
    if kind == "translate":
        t = case["shift"]
        md = case["mindist"]
        ce = np.array([0.0, 0.5, 1.0, 2.25, -3.0, 7.5, 0.0]); cn = np.array([0.0, -0.25, 1.0, 4.0, 0.125, -2.0, 0.0])
        fe = np.array([0.0, 1.0, -0.5]); fn = np.array([0.0, 1.0, 8.0])
        sp = vd.Spline(mindist=md if md else None)
        a = call(rec, sp.jacobian, (ce, cn), (fe, fn))
        b = call(rec, sp.jacobian, (ce + t[0], cn + t[1]), (fe + t[0], fn + t[1]))
        rec.check(not raised(a) and not raised(b) and np.array_equal(a, b), "Spline jacobian is not translation invariant (bitwise, dyadic shift %r)" % (t,))
        if md > 0:
            vs = vd.VectorSpline2D(mindist=md, poisson=0.5)
            a = call(rec, vs.jacobian, (ce, cn), (fe, fn))
            b = call(rec, vs.jacobian, (ce + t[0], cn + t[1]), (fe + t[0], fn + t[1]))
            rec.check(not raised(a) and not raised(b) and np.array_equal(a, b), "VectorSpline2D jacobian is not translation invariant")
        rec.cls("translate")
        return
    if kind == "trend":
        deg = case["degree"]
        mons = R.monomials(deg)
        ncoef = (deg + 1) * (deg + 2) // 2
        assert len(mons) == ncoef
        ee, nn = np.meshgrid(np.arange(-2.0, 4.0), np.arange(-3.0, 3.0))
        ee, nn = ee.ravel(), nn.ravel()
        route = case.get("route")
        if route == "set_params":
            tr = vd.Trend((deg + 2) % 7)
            tr.jacobian((ee, nn))
            tr.set_params(degree=deg)
        elif route == "attribute":
            tr = vd.Trend((deg + 3) % 7)
            tr.degree = deg
        elif route == "clone":
            from sklearn.base import clone
            tr = clone(vd.Trend(deg))
        else:
            tr = vd.Trend(deg)
        J = call(rec, tr.jacobian, (ee, nn))
        if raised(J):
            return rec.check(False, "Trend.jacobian raised %r" % (J,))
        J = np.asarray(J)
        rec.check(J.shape == (ee.size, ncoef), "Trend(%d) has %d monomials, expected (N+1)(N+2)/2 = %d" % (deg, J.shape[1] if J.ndim == 2 else -1, ncoef))
        if J.shape != (ee.size, ncoef):
            return
        for k, (i, j) in enumerate(mons):
            rec.check(np.array_equal(J[:, k], ee ** i * nn ** j), "jacobian column %d is not e^%d n^%d" % (k, i, j))
        tr.region_ = (0, 1, 0, 1)
        for k, (i, j) in enumerate(mons):
            tr.coef_ = np.eye(ncoef)[k]
            if case["shape"] == "0d":
                p = call(rec, tr.predict, (np.array(3.0), np.array(-2.0)))
                rec.check(not raised(p) and np.asarray(p).shape == () and float(p) == 3.0 ** i * (-2.0) ** j, "predict(0-d) with coef e_%d: %r" % (k, p))
                continue
            qe, qn = (ee, nn) if case["shape"] == "1d" else (ee.reshape(6, 6), nn.reshape(6, 6))
            p = call(rec, tr.predict, (qe, qn))
            if raised(p):
                rec.check(False, "Trend.predict raised %r" % (p,))
                continue
            rec.check(np.asarray(p).shape == qe.shape and np.array_equal(np.asarray(p), qe ** i * qn ** j),
                      "predict with coef_ = e_%d is not the monomial e^%d n^%d of the documented order" % (k, i, j))
        rec.cls("trend/deg=%d" % deg)
        return
    if kind == "trend_bad":
        rec.trivial = True
        got = call(rec, lambda: vd.Trend(-1).jacobian((np.zeros(2), np.zeros(2))))
        rec.check(raised(got) and isinstance(got.exc, ValueError), "negative degree must raise")
        got = call(rec, lambda: vd.Trend(1).jacobian((np.zeros(2), np.zeros(3))))
        rec.check(raised(got) and isinstance(got.exc, ValueError), "mismatched coordinate shapes must raise")
        return
    if kind == "checker":
        reg, amp, we, wn = case["region"], case["amp"], case["we"], case["wn"]
        cb = vd.synthetic.CheckerBoard(amplitude=amp, region=tuple(reg), w_east=we, w_north=wn)
        w_e = we if we is not None else (reg[1] - reg[0]) / 2
        w_n = wn if wn is not None else (reg[3] - reg[2]) / 2
        es = np.linspace(reg[0], reg[1], 9); ns = np.linspace(reg[2], reg[3], 7)
        ee, nn = np.meshgrid(es, ns)
        p = call(rec, cb.predict, (ee, nn))
        if raised(p):
            return rec.check(False, "CheckerBoard.predict raised %r" % (p,))
        p = np.asarray(p)
        rec.check(p.shape == ee.shape, "shape")
        ok = True
        for idx in np.ndindex(ee.shape):
            ae, an = 2 * math.pi * ee[idx] / w_e, 2 * math.pi * nn[idx] / w_n
            want = amp * math.sin(ae) * math.cos(an)
            tolv = 16 * R.EPS * abs(amp) * (1 + abs(ae) + abs(an))
            if abs(p[idx] - want) > tolv:
                ok = False
        rec.check(ok, "CheckerBoard != amplitude*sin(2 pi e/w_east)*cos(2 pi n/w_north) with w=(%r, %r)" % (w_e, w_n))
        rec.cls("checker/%s/%s" % ("default_we" if we is None else "we", "default_wn" if wn is None else "wn"))
        return
    if kind == "scipy":
        from scipy.interpolate import CloughTocher2DInterpolator, LinearNDInterpolator

        pts = [G9[i] for i in case["sub"]]
        e = np.array([p[0] for p in pts], dtype=float) * case["aniso"]
        n = np.array([p[1] for p in pts], dtype=float)
        d = np.array([(3 * p[0] - 2 * p[1] + (i * i) % 5) for i, p in enumerate(pts)], dtype=float)
        qe, qn = np.meshgrid(np.linspace(0, 12, 9) * case["aniso"], np.linspace(0, 11, 8))
        cls = getattr(vd, case["cls"])
        ref_cls = LinearNDInterpolator if case["cls"] == "Linear" else CloughTocher2DInterpolator
        est = cls(rescale=case["rescale"])
        fit = call(rec, est.fit, (e, n), d)
        if raised(fit):
            return rec.check(False, "%s.fit raised %r" % (case["cls"], fit))
        p = call(rec, est.predict, (qe, qn))
        if raised(p):
            return rec.check(False, "predict raised %r" % (p,))
        ref = ref_cls(np.column_stack([e, n]), d, rescale=case["rescale"])((qe, qn))
        p = np.asarray(p)
        rec.check(p.shape == qe.shape and np.array_equal(p, ref, equal_nan=True), "%s(rescale=%s) differs from SciPy's interpolator on the same points"
                  % (case["cls"], case["rescale"]))
        other = ref_cls(np.column_stack([e, n]), d, rescale=not case["rescale"])((qe, qn))
        rec.cls("scipy/%s/%s" % (case["cls"], "rescale-sensitive" if not np.array_equal(other, ref, equal_nan=True) else "rescale-insensitive"))
        return
    raise ValueError(kind)
