"""
C05  grid/profile/scatter place each prediction at the right coordinate.

Harness gridder with the injective, asymmetric predict(e, n) = 1000 e + n (+ 1e6 k for component k):
every output value decodes the coordinates it was evaluated at.
"""
import itertools
import math

import warnings

import numpy as np

from mc.util import call, raised, array_args, array_args_unchanged
from models import gridref as G

ID = "C05"
LEVEL = "model_checking"
RULE = (
    "Exhaustive product for grid(): region {4 dyadic regions: positive, negative, large offset, non-square} given or inferred from the "
    "fitted data x 1..3 components x {shape in {1..4}^2, scalar and per-direction spacing x both adjust modes} x both registrations x "
    "extra_coords {none, 1, 2} x projection {none, (2e+1, -n), (e+n, e-n), axis swap}; explicit coordinates {1-D axes, 2-D meshgrid (for the real gridders also column-major, Fortran copies, a single row, a single column), "
    "non-meshgrid (must raise), coordinates together with shape/spacing/region (must raise)}; custom dims and data_names, 4 components "
    "without names (must raise), missing region (must raise). profile(): lattice end points (vertical, horizontal, reversed, "
    "coincident) x size 1..5 x projection with inverse (linear, rotated and a non-linear Mercator-like one) x extra_coords; explicit coordinates also descending / unsorted. scatter(): regions x sizes 0..4 x seeds 0..3 x projection. Real "
    "gridders (Trend, KNeighbors, Chain, Vector) fitted to asymmetric data are cross-checked against their own predict. "
    "Non-trivial: non-square grids / profiles with >= 2 points."
    " Added axes: descending / unsorted explicit coordinates, non-linear projection, CheckerBoard naming, region histories (grid / scatter, change of region by set_params / attribute / refit, again) for seven gridders, region / shape / spacing as numpy arrays (purity), thirteen real gridders incl. SciPy gridders and SplineCV, RandomState objects for scatter, grids of 3.7e5 ... 1.2e6 nodes."
)
ASSUMPTIONS = ["coordinates are dyadic so the coordinate-encoding value 1000 e + n is exact and decoding is an equality test",
               "coordinate vectors are compared with the exact rational reference of C07 (not with verde's own helper)"]

REGIONS = [[0.0, 4.0, 0.0, 3.0], [-5.0, -1.0, -8.0, -6.5], [1024.0, 1026.0, -2048.0, -2040.0], [0.5, 1.25, 2.0, 7.0]]
SPECS = [dict(shape=[a, b]) for a in range(1, 5) for b in range(1, 5)] + \
        [dict(spacing=s) for s in (0.5, 1.0, 0.75)] + [dict(spacing=s) for s in ([0.5, 1.0], [1.0, 0.25], [1.5, 0.75])]
PROJ = ["none", "affine", "rot", "swap"]


def bounds(tier, seed):
    return dict(regions=REGIONS, n_specs=len(SPECS), projections=PROJ, components=[1, 3])


def cases(tier, seed):
    """Every fifth grid case (rotating with the seed) passes region / shape / spacing as numpy arrays (purity checked)."""
    for i, c in enumerate(_cases(tier, seed)):
        yield dict(c, args="ndarray") if (i + seed) % 5 == 0 and c["kind"] == "grid" else c


def _cases(tier, seed):
    for ri in range(len(REGIONS)):
        for nc in (1, 2, 3):
            for spec in SPECS:
                for adjust in (("spacing", "region") if "spacing" in spec else ("spacing",)):
                    for pixel in (False, True):
                        for extra in (0, 1, 2):
                            for proj in PROJ:
                                for inferred in (False, True):
                                    if tier == "quick" and nc == 3 and (extra == 2 or inferred):
                                        continue
                                    yield dict(kind="grid", region=ri, nc=nc, spec=spec, adjust=adjust, pixel=pixel, extra=extra,
                                               proj=proj, inferred=inferred)
    for ri in range(len(REGIONS)):
        for nn in (1, 2, 3):
            for ne in (1, 2, 4):
                for form in ("1d", "2d", "nonmesh_e", "nonmesh_n", "with_shape", "with_spacing", "with_region"):
                    for extra in (0, 1):
                        for proj in ("none", "rot"):
                            yield dict(kind="coords", region=ri, nn=nn, ne=ne, form=form, extra=extra, proj=proj)
                # explicit coordinates need not be ascending (north-up rasters): added after seed C05-1
                for form in ("1d", "2d"):
                    for order in ("desc_n", "desc_e", "desc_both", "unsorted"):
                        yield dict(kind="coords", region=ri, nn=nn, ne=ne, form=form, extra=0, proj="none", order=order)
    for nc in (1, 2, 3, 4):
        for names in ("default", "custom", "short", "str"):
            for dims in ("default", "custom"):
                yield dict(kind="names", nc=nc, names=names, dims=dims)
    # CheckerBoard overrides scatter(): the same naming rules apply to it (seed C05-r2_2)
    for names in ("default", "custom", "str"):
        for dims in ("default", "custom"):
            for extra in (0, 1):
                yield dict(kind="checker_names", names=names, dims=dims, extra=extra)
    yield dict(kind="noregion")
    # the default region of grid() / scatter() is the one of the CURRENT parameters / LATEST fit, whatever was called before
    # (seed C05-8: a cached region_ property)
    for est in ("CheckerBoard:set_params", "CheckerBoard:attribute", "Trend", "KNeighbors", "Chain", "Vector", "Spline"):
        for first in ("none", "grid", "scatter", "both"):
            for second in ("grid", "scatter"):
                for ra, rb in ((0, 1), (1, 0), (0, 2)):
                    yield dict(kind="region_hist", est=est, first=first, second=second, ra=ra, rb=rb)
    pts = [(0.0, 0.0), (4.0, 3.0), (4.0, 0.0), (0.0, 2.5), (-1.5, 2.0), (2.0, -8.0)]
    for p1 in pts:
        for p2 in pts:
            for size in (1, 2, 3, 5):
                for proj in ("none", "affine", "rot", "mercator"):
                    for extra in (0, 1):
                        for nc in (1, 2):
                            if nc == 2 and (extra or proj in ("affine", "mercator")):
                                continue
                            yield dict(kind="profile", p1=list(p1), p2=list(p2), size=size, proj=proj, extra=extra, nc=nc)
    for ri in range(len(REGIONS)):
        for size in range(0, 5):
            for sd in range(0, 4):
                for proj in ("none", "rot"):
                    for extra in (0, 1):
                        for inferred in (False, True):
                            yield dict(kind="scatter", region=ri, size=size, seed=sd, proj=proj, extra=extra, inferred=inferred)
                        if size in (1, 3):
                            yield dict(kind="scatter", region=ri, size=size, seed=sd, proj=proj, extra=extra, inferred=False, rs="instance")
    for nx in (1, 2):
        yield dict(kind="extra_name", nx=nx)
    # large grids (more than 2^18 and 2^20 nodes, row and column counts that are not multiples of anything convenient): every node
    # still holds the prediction at its own coordinates (seed C05-12: prediction in blocks of rows with the remainder lost)
    for shape in ([701, 523], [523, 701], [1031, 1021], [3, 400003]):
        for proj in ("none", "rot"):
            yield dict(kind="grid_big", shape=shape, proj=proj, nc=1 + (shape[0] % 2))
    for est in ("Trend", "KNeighbors", "Chain", "ChainReduce", "Vector", "CheckerBoard", "Spline", "SplineD", "Linear", "Cubic", "ScipyNearest",
                "VectorSpline2D", "SplineCV"):
        for spec in (dict(shape=[3, 4]), dict(shape=[2, 5]), dict(spacing=[1.0, 0.5])):
            for proj in ("none", "rot"):
                yield dict(kind="real", est=est, spec=spec, proj=proj)


def _proj(name):
    if name == "none":
        return None
    if name == "affine":
        def f(e, n, inverse=False):
            if inverse:
                return (np.asarray(e) - 1) / 2, -np.asarray(n)
            return 2 * np.asarray(e) + 1, -np.asarray(n)
        return f
    if name == "rot":
        def f(e, n, inverse=False):
            e, n = np.asarray(e), np.asarray(n)
            if inverse:
                return (e + n) / 2, (e - n) / 2
            return e + n, e - n
        return f
    if name == "mercator":
        # monotone, NON-linear and invertible (added after seed C05-2: linear projections cannot tell "project the end points,
        # then interpolate" from "interpolate, then project")
        def f(e, n, inverse=False):
            e, n = np.asarray(e, dtype=float), np.asarray(n, dtype=float)
            if inverse:
                return e / 3.0, 4.0 * np.log(n)
            return 3.0 * e, np.exp(n / 4.0)
        return f
    if name == "swap":
        def f(e, n, inverse=False):
            return np.asarray(n), np.asarray(e)
        return f
    raise ValueError(name)


def _coder(nc):
    import verde as vd
    from verde.base import BaseGridder

    class Coder(BaseGridder):
        "Harness gridder: every prediction encodes the coordinates it was evaluated at."

        def __init__(self, ncomp=1):
            super().__init__()
            self.ncomp = ncomp

        def fit(self, coordinates, data, weights=None):  # noqa: U100
            self.region_ = vd.get_region(coordinates[:2])
            return self

        def predict(self, coordinates):
            e, n = np.asarray(coordinates[0], dtype=float), np.asarray(coordinates[1], dtype=float)
            comps = tuple(1000.0 * e + n + 1e6 * k for k in range(self.ncomp))
            return comps[0] if self.ncomp == 1 else comps

    return Coder(ncomp=nc)


def _code(e, n, k):
    return 1000.0 * e + n + 1e6 * k


DEFAULT_NAMES = {1: ["scalars"], 2: ["east_component", "north_component"], 3: ["east_component", "north_component", "vertical_component"]}


def _check_dataset(rec, ds, g, east_ref, north_ref, nc, proj, names, dims, extras, what):
    """east_ref/north_ref: 1-D float arrays the coordinates must equal exactly."""
    if not rec.check(list(ds.data_vars) == list(names), "%s: data variables %r != %r" % (what, list(ds.data_vars), list(names))):
        return
    meta = "Generated by " + repr(g)
    rec.check(ds.attrs.get("metadata") == meta, "%s: dataset metadata %r != %r" % (what, ds.attrs.get("metadata"), meta))
    ce, cn = np.asarray(ds.coords[dims[1]].values), np.asarray(ds.coords[dims[0]].values)
    rec.check(ce.shape == east_ref.shape and np.array_equal(ce, east_ref), "%s: %s coordinate %s != %s" % (what, dims[1], ce.tolist(), east_ref.tolist()))
    rec.check(cn.shape == north_ref.shape and np.array_equal(cn, north_ref), "%s: %s coordinate %s != %s" % (what, dims[0], cn.tolist(), north_ref.tolist()))
    if ce.shape != east_ref.shape or cn.shape != north_ref.shape:
        return
    pf = _proj(proj)
    for k, name in enumerate(names):
        var = ds[name]
        rec.check(tuple(var.dims) == tuple(dims), "%s: variable dims %r != %r" % (what, var.dims, dims))
        rec.check(var.attrs.get("metadata") == meta, "%s: variable metadata missing" % what)
        vals = np.asarray(var.values)
        if not rec.check(vals.shape == (cn.size, ce.size), "%s: value shape %s != (n_north, n_east) = %s" % (what, vals.shape, (cn.size, ce.size))):
            continue
        bad = None
        for i in range(cn.size):
            for j in range(ce.size):
                pe, pn = (ce[j], cn[i]) if pf is None else pf(ce[j], cn[i])
                if vals[i, j] != _code(float(pe), float(pn), k):
                    bad = (i, j, float(vals[i, j]), _code(float(pe), float(pn), k))
        rec.check(bad is None, "%s: value at row/col %s is %s, the prediction at (easting[j], northing[i])%s is %s"
                  % ((what,) + ((bad[0], bad[1]), bad[2], "" if pf is None else " projected", bad[3]) if bad else (what, 0, 0, "", 0)))
    xnames = ["extra_coord"] + ["extra_coord_%d" % i for i in range(1, len(extras))]
    for nm, v in zip(xnames, extras):
        ok = nm in ds.coords and tuple(ds.coords[nm].dims) == tuple(dims) and bool(np.all(np.asarray(ds.coords[nm].values) == v))
        rec.check(ok, "%s: extra coordinate %r is not the constant %r on dims %r" % (what, nm, v, dims))
    rec.check(set(ds.coords) == set(dims) | set(xnames[:len(extras)]), "%s: coordinates %r" % (what, list(ds.coords)))


def run(case, rec):
    import verde as vd
    import pandas as pd

    kind = case["kind"]
    if kind == "grid":
        region = REGIONS[case["region"]]
        nc = case["nc"]
        g = _coder(nc)
        spec = case["spec"]
        kw = dict(adjust=case["adjust"], pixel_register=case["pixel"])
        if "shape" in spec:
            kw["shape"] = tuple(spec["shape"])
        else:
            s = spec["spacing"]
            kw["spacing"] = tuple(s) if isinstance(s, list) else s
        extras = [57.0, 0.125][:case["extra"]]
        if extras:
            kw["extra_coords"] = extras if len(extras) > 1 else extras[0]
        if case["inferred"]:
            w, e, s_, n = region
            call(rec, g.fit, (np.array([w, e, (w + e) / 2]), np.array([n, s_, (s_ + n) / 2])), np.zeros(3))
        else:
            kw["region"] = region
        if case["proj"] != "none":
            kw["projection"] = _proj(case["proj"])
        if case.get("args") == "ndarray":
            kw_a, snap = array_args(kw)
            ds = call(rec, g.grid, **kw_a)
            rec.check(array_args_unchanged(kw_a, snap), "grid() modified an argument array: %r" % ({k: kw_a[k].tolist() for k in snap},))
        else:
            ds = call(rec, g.grid, **kw)
        if raised(ds):
            return rec.check(False, "grid raised %r" % (ds,))
        # reference coordinates
        axes = []
        for ax in (0, 1):
            lo, hi = region[2 * ax], region[2 * ax + 1]
            if "shape" in spec:
                lay, mx = G.axis_layouts(lo, hi, size=spec["shape"][1 - ax], pixel=case["pixel"])
            else:
                s = spec["spacing"]
                spv = s[1 - ax] if isinstance(s, list) else s
                lay, mx = G.axis_layouts(lo, hi, spacing=spv, adjust=case["adjust"], pixel=case["pixel"])
            axes.append((lay, (lo, hi, mx)))
        names = DEFAULT_NAMES[nc]
        dims = ("northing", "easting")
        ce, cn = np.asarray(ds.coords["easting"].values), np.asarray(ds.coords["northing"].values)
        rec.check(G.match_axis(ce, axes[0][0], axes[0][1]) is not None, "easting nodes %s are not the requested regular coordinates of %r %r" % (ce.tolist(), region, kw))
        rec.check(G.match_axis(cn, axes[1][0], axes[1][1]) is not None, "northing nodes %s are not the requested regular coordinates of %r %r" % (cn.tolist(), region, kw))
        gc = vd.grid_coordinates(region, **{k: v for k, v in kw.items() if k not in ("region", "projection", "extra_coords")}, meshgrid=False)
        _check_dataset(rec, ds, g, np.asarray(gc[0]), np.asarray(gc[1]), nc, case["proj"], names, dims, extras, "grid(%r)" % (kw,))
        rec.trivial = ce.size == cn.size
        rec.cls("grid/%s/%s/px=%d/proj=%s" % ("shape" if "shape" in spec else "spacing", "inferred" if case["inferred"] else "given", case["pixel"], case["proj"]))
        return
    if kind == "coords":
        region = REGIONS[case["region"]]
        nn, ne = case["nn"], case["ne"]
        east = np.linspace(region[0], region[1], ne) if ne > 1 else np.array([region[0]])
        north = np.linspace(region[2], region[3], nn) ** 1 if nn > 1 else np.array([region[2]])
        # non-uniform axes are allowed for explicit coordinates
        if ne > 2:
            east = east.copy(); east[1] = east[0] + (east[1] - east[0]) / 4
        order = case.get("order")
        if order in ("desc_n", "desc_both"):
            north = north[::-1].copy()
        if order in ("desc_e", "desc_both"):
            east = east[::-1].copy()
        if order == "unsorted":
            east = np.roll(east, 1); north = np.roll(north, 1)
        g = _coder(1)
        form = case["form"]
        e2, n2 = np.meshgrid(east, north)
        extras = [12.5][:case["extra"]]
        kw = {}
        if case["proj"] != "none":
            kw["projection"] = _proj(case["proj"])
        must_raise = False
        if form == "1d":
            coords = (east, north) + tuple(np.full((nn, ne), v) for v in extras)
        else:
            coords = (e2, n2) + tuple(np.full((nn, ne), v) for v in extras)
        if form == "nonmesh_e":
            if nn < 2:
                rec.trivial = True
                return
            bad = e2.copy(); bad[-1, -1] += 1.0
            coords = (bad, n2) + coords[2:]
            must_raise = True
        if form == "nonmesh_n":
            if ne < 2:
                rec.trivial = True
                return
            bad = n2.copy(); bad[0, -1] += 0.5
            coords = (e2, bad) + coords[2:]
            must_raise = True
        if form == "with_shape":
            kw["shape"] = (nn, ne); must_raise = True
        if form == "with_spacing":
            kw["spacing"] = 1.0; must_raise = True
        if form == "with_region":
            kw["region"] = region; must_raise = True
        ds = call(rec, g.grid, coordinates=coords, **kw)
        if must_raise:
            rec.trivial = True
            rec.cls("refusal:" + form)
            return rec.check(raised(ds) and isinstance(ds.exc, ValueError), "grid(coordinates=..., %s) must raise ValueError, got %r" % (form, type(ds)))
        if raised(ds):
            return rec.check(False, "grid(coordinates) raised %r" % (ds,))
        _check_dataset(rec, ds, g, east, north, 1, case["proj"], ["scalars"], ("northing", "easting"), extras, "grid(coordinates %s)" % form)
        rec.trivial = nn == ne
        rec.cls("coords/" + form + ("/" + order if order else ""))
        return
    if kind == "names":
        nc = case["nc"]
        g = _coder(nc)
        kw = dict(region=REGIONS[0], shape=(2, 3))
        want_names = DEFAULT_NAMES.get(nc)
        must_raise = False
        if case["names"] == "custom":
            want_names = ["v%d" % k for k in range(nc)]
            kw["data_names"] = list(want_names)
        elif case["names"] == "short":
            kw["data_names"] = ["v%d" % k for k in range(nc - 1)] or ["a", "b"]
            must_raise = True
        elif case["names"] == "str":
            kw["data_names"] = "single"
            want_names = ["single"]
            must_raise = nc != 1
        elif nc == 4:
            must_raise = True
        dims = ("northing", "easting")
        if case["dims"] == "custom":
            dims = ("lat", "lon")
            kw["dims"] = dims
        ds = call(rec, g.grid, **kw)
        if must_raise:
            rec.trivial = True
            rec.cls("refusal:names")
            return rec.check(raised(ds) and isinstance(ds.exc, ValueError), "data_names %r for %d components must raise ValueError, got %r" % (kw.get("data_names"), nc, type(ds)))
        if raised(ds):
            return rec.check(False, "grid raised %r" % (ds,))
        gc = vd.grid_coordinates(REGIONS[0], shape=(2, 3), meshgrid=False)
        _check_dataset(rec, ds, g, np.asarray(gc[0]), np.asarray(gc[1]), nc, "none", want_names, dims, [], "grid(names)")
        # same names in profile and scatter
        pr = call(rec, g.profile, (0.0, 0.0), (4.0, 3.0), 3, **{k: v for k, v in kw.items() if k in ("dims", "data_names")})
        if raised(pr):
            rec.check(False, "profile raised %r" % (pr,))
        else:
            rec.check(list(pr.columns) == [dims[0], dims[1], "distance"] + list(want_names), "profile columns %r" % (list(pr.columns),))
        sc = call(rec, g.scatter, region=REGIONS[0], size=3, random_state=1, **{k: v for k, v in kw.items() if k in ("dims", "data_names")})
        if raised(sc):
            rec.check(False, "scatter raised %r" % (sc,))
        else:
            rec.check(list(sc.columns) == [dims[0], dims[1]] + list(want_names), "scatter columns %r" % (list(sc.columns),))
        rec.cls("names/%s/%s" % (case["names"], case["dims"]))
        return
    if kind == "extra_name":
        # the name of extra coordinates follows the gridder's `extra_coords_name` attribute
        g = _coder(1)
        g.extra_coords_name = "upward"
        vals = [7.0, 8.0][:case["nx"]]
        names = ["upward", "upward_1"][:case["nx"]]
        ds = call(rec, g.grid, region=REGIONS[0], shape=(2, 3), extra_coords=vals if len(vals) > 1 else vals[0])
        if raised(ds):
            return rec.check(False, "grid raised %r" % (ds,))
        for nm, v in zip(names, vals):
            rec.check(nm in ds.coords and bool(np.all(ds.coords[nm].values == v)), "extra coordinate %r missing or wrong: %r" % (nm, list(ds.coords)))
        pr = call(rec, g.profile, (0.0, 0.0), (4.0, 3.0), 3, extra_coords=vals if len(vals) > 1 else vals[0])
        rec.check(not raised(pr) and list(pr.columns) == ["northing", "easting", "distance"] + names + ["scalars"], "profile columns with custom extra coordinate name: %r" % (getattr(pr, "columns", pr),))
        sc_ = call(rec, g.scatter, region=REGIONS[0], size=2, random_state=0, extra_coords=vals if len(vals) > 1 else vals[0])
        rec.check(not raised(sc_) and list(sc_.columns) == ["northing", "easting"] + names + ["scalars"], "scatter columns with custom extra coordinate name")
        return
    if kind == "checker_names":
        cb = vd.synthetic.CheckerBoard(region=(0.0, 4.0, 0.0, 3.0))
        kw = {}
        want = ["scalars"]
        if case["names"] == "custom":
            kw["data_names"] = ["field"]; want = ["field"]
        elif case["names"] == "str":
            kw["data_names"] = "single"; want = ["single"]
        dims = ("northing", "easting")
        if case["dims"] == "custom":
            dims = ("latitude", "longitude"); kw["dims"] = dims
        xk = {"extra_coords": 9.0} if case["extra"] else {}
        xn = ["extra_coord"] if case["extra"] else []
        sc_ = call(rec, cb.scatter, size=4, random_state=1, **kw, **xk)
        rec.check(not raised(sc_) and list(sc_.columns) == [dims[0], dims[1]] + xn + want, "CheckerBoard.scatter columns %r, expected %r"
                  % (list(getattr(sc_, "columns", [])), [dims[0], dims[1]] + xn + want))
        pr = call(rec, cb.profile, (0.0, 0.0), (4.0, 3.0), 3, **kw, **xk)
        rec.check(not raised(pr) and list(pr.columns) == [dims[0], dims[1], "distance"] + xn + want, "CheckerBoard.profile columns %r" % (list(getattr(pr, "columns", [])),))
        ds = call(rec, cb.grid, shape=(2, 3), **kw, **xk)
        rec.check(not raised(ds) and list(ds.data_vars) == want and set(ds.dims) == set(dims), "CheckerBoard.grid names %r dims %r" % (list(getattr(ds, "data_vars", [])), getattr(ds, "dims", None)))
        if not raised(sc_) and list(sc_.columns) == [dims[0], dims[1]] + xn + want:
            pts = vd.scatter_points((0.0, 4.0, 0.0, 3.0), 4, random_state=1)
            rec.check(np.array_equal(sc_[dims[1]].values, pts[0]) and np.array_equal(sc_[dims[0]].values, pts[1]), "CheckerBoard.scatter: %s/%s columns do not hold easting/northing" % (dims[1], dims[0]))
        rec.cls("checker_names")
        return
    if kind == "region_hist":
        HR = [(0.0, 4.0, 0.0, 3.0), (100.0, 130.0, 20.0, 30.0), (-7.5, -2.5, 1.0e3, 1.5e3)]
        ra, rb = HR[case["ra"]], HR[case["rb"]]

        def data_on(reg):
            e_, n_ = vd.grid_coordinates(reg, shape=(3, 4))
            return (e_.ravel(), n_.ravel()), 1.0 + 0.5 * (e_.ravel() - reg[0]) / (reg[1] - reg[0]) - 0.25 * (n_.ravel() - reg[2]) / (reg[3] - reg[2])

        name = case["est"]
        with warnings.catch_warnings():
            warnings.simplefilter("ignore")
            if name.startswith("CheckerBoard"):
                g = vd.synthetic.CheckerBoard(region=ra)
            else:
                g = {"Trend": lambda: vd.Trend(1), "KNeighbors": lambda: vd.KNeighbors(1), "Spline": lambda: vd.Spline(),
                     "Chain": lambda: vd.Chain([("t", vd.Trend(1)), ("k", vd.KNeighbors(1))]),
                     "Vector": lambda: vd.Vector([vd.Trend(1), vd.Trend(0)])}[name]()
                c_, d_ = data_on(ra)
                g.fit(c_, (d_, -d_) if name == "Vector" else d_)
            if case["first"] in ("grid", "both"):
                call(rec, g.grid, shape=(2, 3))
            if case["first"] in ("scatter", "both"):
                call(rec, g.scatter, size=3, random_state=0)
            if name == "CheckerBoard:set_params":
                g.set_params(region=rb)
            elif name == "CheckerBoard:attribute":
                g.region = rb
            else:
                c_, d_ = data_on(rb)
                g.fit(c_, (d_, -d_) if name == "Vector" else d_)
            if case["second"] == "grid":
                ds = call(rec, g.grid, shape=(2, 3))
                if raised(ds):
                    return rec.check(False, "grid raised %r" % (ds,))
                we, wn = vd.grid_coordinates(rb, shape=(2, 3))
                rec.check(np.array_equal(ds.easting.values, we[0]) and np.array_equal(ds.northing.values, wn[:, 0]),
                          "grid() after the region changed %r -> %r (%s) covers easting %r northing %r" % (ra, rb, name, ds.easting.values.tolist(), ds.northing.values.tolist()))
            else:
                tb = call(rec, g.scatter, size=3, random_state=0)
                if raised(tb):
                    return rec.check(False, "scatter raised %r" % (tb,))
                we, wn = vd.scatter_points(rb, 3, random_state=0)
                rec.check(np.array_equal(tb.easting.values, we) and np.array_equal(tb.northing.values, wn),
                          "scatter() after the region changed %r -> %r (%s) has easting %r northing %r" % (ra, rb, name, tb.easting.values.tolist(), tb.northing.values.tolist()))
        rec.cls("region_hist:" + name.split(":")[0])
        return
    if kind == "noregion":
        rec.trivial = True
        g = _coder(1)
        a = call(rec, g.grid, shape=(2, 2))
        rec.check(raised(a) and isinstance(a.exc, ValueError), "grid without region on an unfitted gridder must raise")
        b = call(rec, g.scatter, size=2)
        rec.check(raised(b) and isinstance(b.exc, ValueError), "scatter without region on an unfitted gridder must raise")
        return
    if kind == "profile":
        nc = case["nc"]
        g = _coder(nc)
        p1, p2, size = tuple(case["p1"]), tuple(case["p2"]), case["size"]
        pf = _proj(case["proj"])
        kw = {}
        if pf is not None:
            kw["projection"] = pf
        extras = [35.0][:case["extra"]]
        if extras:
            kw["extra_coords"] = extras[0]
        pr = call(rec, g.profile, p1, p2, size, **kw)
        if raised(pr):
            return rec.check(False, "profile raised %r" % (pr,))
        names = DEFAULT_NAMES[nc]
        cols = ["northing", "easting", "distance"] + (["extra_coord"] if extras else []) + names
        rec.check(isinstance(pr, pd.DataFrame) and list(pr.columns) == cols, "profile columns %r != %r" % (list(getattr(pr, "columns", [])), cols))
        rec.check(len(pr) == size, "profile has %d rows, requested %d" % (len(pr), size))
        if len(pr) != size or list(pr.columns) != cols:
            return
        q1 = p1 if pf is None else tuple(float(v) for v in pf(*p1))
        q2 = p2 if pf is None else tuple(float(v) for v in pf(*p2))
        dx, dy = q2[0] - q1[0], q2[1] - q1[1]
        sep = math.hypot(dx, dy)
        scale = max([abs(v) for v in q1 + q2] + [sep, 1.0])
        tol = 32 * math.ulp(scale) if case["proj"] != "mercator" else 1e-12 * scale
        for i in range(size):
            t = 0.0 if size == 1 else i / (size - 1)
            xe, xn = q1[0] + t * dx, q1[1] + t * dy  # projected (Cartesian) profile point
            rec.check(abs(pr["distance"].values[i] - t * sep) <= tol, "distance[%d] = %r, expected %r (projected units)" % (i, pr["distance"].values[i], t * sep))
            be, bn = (xe, xn) if pf is None else tuple(float(v) for v in pf(xe, xn, inverse=True))
            rec.check(abs(pr["easting"].values[i] - be) <= tol and abs(pr["northing"].values[i] - bn) <= tol,
                      "profile point %d is (%r, %r), expected %r on the segment (mapped back)" % (i, pr["easting"].values[i], pr["northing"].values[i], (be, bn)))
            for k, nm in enumerate(names):
                # the value encodes where predict was evaluated: must be the projected profile point
                v = pr[nm].values[i] - 1e6 * k
                rec.check(abs(v - (1000.0 * xe + xn)) <= 1000 * tol, "%s[%d] = %r was not predicted at the projected profile point (%r, %r)" % (nm, i, pr[nm].values[i], xe, xn))
        if extras:
            rec.check(bool(np.all(pr["extra_coord"].values == 35.0)), "extra coordinate not constant")
        rec.trivial = size < 2 or sep == 0
        rec.cls("profile/%s/%s" % (case["proj"], "coincident" if sep == 0 else "vertical" if dx == 0 else "horizontal" if dy == 0 else "oblique"))
        return
    if kind == "grid_big":
        nc = case["nc"]
        g = _coder(nc)
        region = (-3.0, 5.0, 10.0, 14.0)
        pf = _proj(case["proj"])
        ds = call(rec, g.grid, region=region, shape=tuple(case["shape"]), **({"projection": pf} if pf is not None else {}))
        if raised(ds):
            return rec.check(False, "grid raised %r" % (ds,))
        ge, gn = vd.grid_coordinates(region, shape=tuple(case["shape"]))
        rec.check(np.array_equal(ds.easting.values, ge[0]) and np.array_equal(ds.northing.values, gn[:, 0]), "coordinates of the large grid are not grid_coordinates(region, shape)")
        pe, pn = (ge, gn) if pf is None else pf(ge, gn)
        names = DEFAULT_NAMES[nc]
        rec.check(list(ds.data_vars) == names, "data variables %r" % (list(ds.data_vars),))
        for k, nm in enumerate(names):
            if nm not in ds:
                continue
            vals = np.asarray(ds[nm].values)
            want = _code(np.asarray(pe), np.asarray(pn), k)
            ok = vals.shape == want.shape and bool(np.all(np.abs(vals - want) <= 64 * np.finfo(float).eps * np.abs(want).max()))
            bad = np.argwhere(~(np.abs(vals - want) <= 64 * np.finfo(float).eps * np.abs(want).max())) if vals.shape == want.shape else []
            rec.check(ok, "large grid %s: %d of %d nodes do not hold the prediction at their own coordinates (first at row, column %s)"
                      % (case["shape"], len(bad), want.size, bad[0].tolist() if len(bad) else None))
        rec.count("big_grid_nodes", int(np.prod(case["shape"])))
        rec.cls("grid_big/%s" % case["proj"])
        return
    if kind == "scatter":
        region = REGIONS[case["region"]]
        g = _coder(1)
        kw = dict(size=case["size"], random_state=case["seed"])
        if case["inferred"]:
            w, e, s_, n = region
            call(rec, g.fit, (np.array([w, e]), np.array([n, s_])), np.zeros(2))
        else:
            kw["region"] = region
        pf = _proj(case["proj"])
        if pf is not None:
            kw["projection"] = pf
        if case["extra"]:
            kw["extra_coords"] = 7.0
        if case.get("rs") == "instance":
            # a RandomState object instead of an integer seed: it is consumed once, for exactly one draw of the points (seed C05-11)
            kw["random_state"] = np.random.RandomState(case["seed"])
        sc = call(rec, g.scatter, **kw)
        if raised(sc):
            return rec.check(False, "scatter raised %r" % (sc,))
        if case.get("rs") == "instance":
            follow = kw["random_state"].uniform(size=3)
            fresh = np.random.RandomState(case["seed"])
            vd.scatter_points(region, case["size"], random_state=fresh)
            rec.check(np.array_equal(follow, fresh.uniform(size=3)), "scatter consumed the RandomState it was given differently from one scatter_points call")
            kw["random_state"] = case["seed"]
        pts = vd.scatter_points(region, case["size"], random_state=case["seed"], **({"extra_coords": 7.0} if case["extra"] else {}))
        cols = ["northing", "easting"] + (["extra_coord"] if case["extra"] else []) + ["scalars"]
        rec.check(list(sc.columns) == cols and len(sc) == case["size"], "scatter columns/rows %r %d" % (list(sc.columns), len(sc)))
        if list(sc.columns) != cols or len(sc) != case["size"]:
            return
        rec.check(np.array_equal(sc["easting"].values, pts[0]) and np.array_equal(sc["northing"].values, pts[1]),
                  "scatter coordinates are not scatter_points(region, size, random_state)")
        if case["size"]:
            rec.check(bool(np.all(vd.inside((pts[0], pts[1]), region))), "scatter points outside the region")
            pe, pn = (pts[0], pts[1]) if pf is None else pf(pts[0], pts[1])
            want = 1000.0 * np.asarray(pe) + np.asarray(pn)
            rec.check(bool(np.allclose(sc["scalars"].values, want, rtol=0, atol=64 * np.finfo(float).eps * np.max(np.abs(want)))),
                      "scatter values were not predicted at the (projected) scatter points")
            sc2 = call(rec, g.scatter, **kw)
            rec.check(not raised(sc2) and sc2.equals(sc), "scatter not reproducible for a fixed random_state")
        if case["extra"]:
            rec.check(bool(np.all(sc["extra_coord"].values == 7.0)), "extra coordinate not constant")
        rec.trivial = case["size"] == 0
        rec.cls("scatter/%s/%s" % (case["proj"], "inferred" if case["inferred"] else "given"))
        return
    if kind == "real":
        e = np.array([0.0, 4.0, 1.0, 3.0, 2.0, 0.5, 3.5]); n = np.array([0.0, 3.0, 2.5, 0.5, 1.5, 1.0, 2.0])
        d = 3.0 * e - 2.0 * n + 0.25 * e * n + 1.0
        name = case["est"]
        if name == "CheckerBoard":
            cb = vd.synthetic.CheckerBoard(amplitude=10.0, region=(0.0, 4.0, 0.0, 3.0), w_east=3.0, w_north=2.0)
            kw = {k: (tuple(v) if isinstance(v, list) else v) for k, v in case["spec"].items()}
            pf = _proj(case["proj"])
            if pf is not None:
                kw["projection"] = pf
            ds = call(rec, cb.grid, **kw)
            if raised(ds):
                return rec.check(False, "CheckerBoard.grid raised %r" % (ds,))
            bad = None
            for i in range(ds.northing.size):
                for j in range(ds.easting.size):
                    q = (np.array(ds.easting.values[j]), np.array(ds.northing.values[i]))
                    if pf is not None:
                        q = pf(*q)
                    want = 10.0 * np.sin(2 * np.pi * q[0] / 3.0) * np.cos(2 * np.pi * q[1] / 2.0)
                    if abs(float(ds.scalars.values[i, j]) - float(want)) > 1e-9:
                        bad = (i, j)
            rec.check(bad is None, "CheckerBoard grid value at %s is not the formula at that node" % (bad,))
            sc_ = call(rec, cb.scatter, size=5, random_state=3, **({"projection": pf} if pf is not None else {}))
            if raised(sc_):
                return rec.check(False, "CheckerBoard.scatter raised %r" % (sc_,))
            pts = vd.scatter_points((0.0, 4.0, 0.0, 3.0), 5, random_state=3)
            q = pts if pf is None else pf(*pts)
            want = 10.0 * np.sin(2 * np.pi * np.asarray(q[0]) / 3.0) * np.cos(2 * np.pi * np.asarray(q[1]) / 2.0)
            rec.check(np.array_equal(sc_["easting"].values, pts[0]) and np.array_equal(sc_["northing"].values, pts[1]) and np.allclose(sc_["scalars"].values, want, rtol=0, atol=1e-9),
                      "CheckerBoard.scatter does not predict at scatter_points of its region")
            rec.check(list(sc_.columns) == ["northing", "easting", "scalars"], "scatter columns %r" % (list(sc_.columns),))
            rec.cls("real/CheckerBoard")
            return
        if name == "Trend":
            est, data = vd.Trend(1), d
        elif name == "KNeighbors":
            est, data = vd.KNeighbors(k=1), d
        elif name == "Chain":
            est, data = vd.Chain([("t", vd.Trend(1)), ("k", vd.KNeighbors(k=2))]), d
        elif name == "Spline":
            est, data = vd.Spline(), d
        elif name == "SplineD":
            est, data = vd.Spline(damping=1e-3, force_coords=(e[:4] + 0.25, n[:4] - 0.5)), d
        elif name in ("Linear", "Cubic", "ScipyNearest"):
            est, data = {"Linear": lambda: vd.Linear(), "Cubic": lambda: vd.Cubic(), "ScipyNearest": lambda: vd.ScipyGridder("nearest")}[name](), d
        elif name == "VectorSpline2D":
            est, data = vd.VectorSpline2D(mindist=0.5), (d, -2.0 * d + e)
        elif name == "SplineCV":
            est, data = vd.SplineCV(dampings=(1e-3, 1e-1), cv=__import__("sklearn.model_selection", fromlist=["KFold"]).KFold(3)), d
        elif name == "ChainReduce":
            # the block means lie strictly inside the data's bounding box: the default region must still be that of the fitted data
            est, data = vd.Chain([("r", vd.BlockReduce(np.mean, spacing=2.0)), ("t", vd.Trend(1))]), d
        else:
            est, data = vd.Vector([vd.Trend(1), vd.KNeighbors(k=1)]), (d, -2.0 * d + e)
        # cases with a projection fit on 2-D arrays that are NOT a meshgrid (scattered points stored as a 7 x 1 / 1 x 7 table): region_ must
        # still be the bounding box of all points (round 9, seed C05-18: a bounding box read off the first row and column)
        if case["proj"] != "none":
            shp_ = (7, 1) if "shape" in case["spec"] else (1, 7)
            r2_ = lambda a_: tuple(x_.reshape(shp_) for x_ in a_) if isinstance(a_, tuple) else a_.reshape(shp_)
            fit_ = call(rec, est.fit, (e.reshape(shp_), n.reshape(shp_)), r2_(data))
        else:
            fit_ = call(rec, est.fit, (e, n), data)
        if raised(fit_):
            return rec.check(False, "fit raised")
        kw = dict(case["spec"])
        kw = {k: (tuple(v) if isinstance(v, list) else v) for k, v in kw.items()}
        pf = _proj(case["proj"])
        if pf is not None:
            kw["projection"] = pf
        ds = call(rec, est.grid, **kw)
        if raised(ds):
            return rec.check(False, "grid raised %r" % (ds,))
        gc = vd.grid_coordinates((0.0, 4.0, 0.0, 3.0), **{k: v for k, v in kw.items() if k != "projection"}, meshgrid=False)
        rec.check(np.array_equal(ds.easting.values, gc[0]) and np.array_equal(ds.northing.values, gc[1]), "default region is not the bounding box of the fitted data")
        names = list(ds.data_vars)
        for k, nm in enumerate(names):
            vals = ds[nm].values
            bad = None
            for i in range(ds.northing.size):
                for j in range(ds.easting.size):
                    q = (np.array(ds.easting.values[j]), np.array(ds.northing.values[i]))
                    if pf is not None:
                        q = pf(*q)
                    p = est.predict(q)
                    p = p[k] if isinstance(p, tuple) else p
                    if not ((np.isnan(float(p)) and np.isnan(vals[i, j])) or abs(float(p) - vals[i, j]) <= 1e-9 * (1 + abs(float(p)))):
                        bad = (i, j, float(vals[i, j]), float(p))
            rec.check(bad is None, "%s grid value at %s differs from predict at that node: %s" % (name, bad[:2] if bad else "", bad))
        rec.check(ds.attrs.get("metadata") == "Generated by " + repr(est), "metadata")
        # explicit coordinates for a REAL gridder (round 8, seed C05-15: the value at [i, j] is the prediction at (easting[j], northing[i])
        # whatever the memory layout of the 2-D arrays): 1-D axes, a C-ordered meshgrid, a column-major meshgrid (transposed "ij" mesh),
        # a single row and a single column given as 2-D arrays (seed C05-16)
        xe, xn = np.array([0.5, 1.0, 3.0, 3.5]), np.array([0.25, 1.5, 2.5])
        me, mn = np.meshgrid(xe, xn)
        ie, in_ = np.meshgrid(xe, xn, indexing="ij")
        forms = {"1-D axes": ((xe, xn), xe, xn), "2-D C-ordered meshgrid": ((me, mn), xe, xn), "2-D column-major meshgrid": ((ie.T, in_.T), xe, xn),
                 "2-D Fortran copies": ((np.asfortranarray(me), np.asfortranarray(mn)), xe, xn),
                 "2-D single row": ((me[:1], mn[:1]), xe, xn[:1]), "2-D single column": ((me[:, :1], mn[:, :1]), xe[:1], xn)}
        for fname, (cc, ax_e, ax_n) in forms.items():
            dsx = call(rec, est.grid, coordinates=cc, **({"projection": pf} if pf is not None else {}))
            if raised(dsx):
                rec.check(False, "%s.grid(coordinates = %s) raised %r" % (name, fname, dsx))
                continue
            if not rec.check(np.array_equal(dsx.easting.values, ax_e) and np.array_equal(dsx.northing.values, ax_n),
                             "%s.grid(coordinates = %s): coordinate vectors %s / %s are not the given ones" % (name, fname, dsx.easting.values.tolist(), dsx.northing.values.tolist())):
                continue
            for k, nm in enumerate(list(dsx.data_vars)):
                vals = dsx[nm].values
                bad = None
                if vals.shape != (ax_n.size, ax_e.size):
                    bad = ("shape", vals.shape)
                else:
                    for i in range(ax_n.size):
                        for j in range(ax_e.size):
                            q = (np.array(ax_e[j]), np.array(ax_n[i]))
                            if pf is not None:
                                q = pf(*q)
                            p = est.predict(q)
                            p = p[k] if isinstance(p, tuple) else p
                            if not ((np.isnan(float(p)) and np.isnan(vals[i, j])) or abs(float(p) - vals[i, j]) <= 1e-9 * (1 + abs(float(p)))):
                                bad = (i, j, float(vals[i, j]), float(p))
                rec.check(bad is None, "%s.grid(coordinates = %s): value at %s differs from predict at that node: %s" % (name, fname, bad[:2] if bad else "", bad))
        sc_ = call(rec, est.scatter, size=4, random_state=2)
        if raised(sc_):
            rec.check(False, "scatter raised %r" % (sc_,))
        else:
            pts = vd.scatter_points((0.0, 4.0, 0.0, 3.0), 4, random_state=2)
            rec.check(np.array_equal(sc_["easting"].values, pts[0]) and np.array_equal(sc_["northing"].values, pts[1]),
                      "scatter() without a region does not use the bounding box of the fitted data")
        rec.cls("real/" + name)
        return
    raise ValueError(kind)
