"""
C02  Fitted models are the weighted, damped least-squares optimum.

One case = (point set, estimator family, force layout); inside it every damping x weights x data
combination is fitted with verde and with the reference solver and compared at 9 off-data queries.
"""
import itertools
import math

import numpy as np

from mc.util import call, raised, pick_frames
from models import numref as R
from checks.c01 import L33, JIT

ID = "C02"
LEVEL = "model_checking"
RULE = (
    "Exhaustive product: point set in all k-subsets (k = 4..5 quick, 4..6 thorough) of the jittered 3x3 lattice x estimator {Trend(0..2) "
    "(0..4 thorough), Spline(mindist 0 / 0.1 extent), VectorSpline2D(poisson in {-1,0,.5} quick, {-1,-.5,0,.5,1} thorough)} x force layout "
    "{at the data; separate forces on m-subsets (m = 2..3 quick, 2..4 thorough) of the remaining lattice points} x damping {None, 1e-8, "
    "1e-4, 1e-2, 1, 1e2} x weights {none, constant, ramp, one weight 1e-12; vector: (ramp, reversed ramp)} x data {every unit basis "
    "vector, ramp} x frames (scale 1, 1e-2, 1e3); predictions at 9 off-data queries against an independently assembled (own kernels) and "
    "independently solved (SVD) weighted damped least-squares problem in unit-variance column scaling. Metamorphic: weights x c for c in "
    "{1e-3, 7, 1e4} leave undamped fits unchanged; a weight of 1e-12 equals removal of the datum (undamped, over-determined). "
    "Non-trivial: compared fits (well conditioned)."
    " Added axes: four parameter routes rotating over the cases, weight kinds incl. 1e-12 and 1e-18 / 1e-30 of the largest, weight scaling by 1e-3 ... 1e12, metre-scale point sets at UTM-like offsets, 200-km clouds for Trend degrees 0..4, repeated stations, a third of the even-sized fits as 2 x n/2 arrays."
)
ASSUMPTIONS = ["undamped fits: tolerance 256 cond eps ||p_scaled|| ||J_query_scaled||; damped fits are solved by scikit-learn through the normal "
               "equations, so cond is squared there; combinations whose bound exceeds 1e-3 relative are counted as not compared",
               "rank-deficient (under-determined) problems are outside the property (it speaks of well conditioned problems)"]

DAMP = [None, 1e-8, 1e-4, 1e-2, 1.0, 1e2]
QUERIES = [(0.5, 0.5), (1.5, 0.5), (0.5, 1.5), (1.25, 1.75), (1.0, 0.4), (-0.5, 1.0), (2.5, 2.5), (0.1, 1.9), (1.9, 0.2)]
SCALES = [1.0, 1e-2, 1e3]


def bounds(tier, seed):
    return dict(frames=pick_frames(SCALES, tier, seed), dampings=["None"] + DAMP[1:], queries=QUERIES,
                subset_sizes=[4, 5] if tier == "quick" else [4, 6])


ROUTES = ["ctor", "set_params", "attribute", "clone"]


def cases(tier, seed):
    """Every case gets one of the four routes by which the parameters reach the estimator (rotating, offset by the seed)."""
    for i, c in enumerate(_cases(tier, seed)):
        yield dict(c, route=ROUTES[(i + seed) % 4])


def _cases(tier, seed):
    yield from _main_cases(tier, seed)
    # projected-coordinate magnitudes: metre-scale point spacing at UTM-like offsets (the kernels depend on coordinate differences, which
    # stay exact; an expanded |p|^2 + |f|^2 - 2 p.f form does not: seed C02-9) and a 200 km wide cloud around the origin for the
    # trends of degree 0..4 (column scaling matters: seed C02-10)
    subs = list(itertools.combinations(range(9), 5))
    subs = subs[seed % 7::7] if tier == "quick" else subs[::2]
    for s in subs:
        s = list(s)
        for sc, off in ((1.0, (5.0e5, 7.4e6)), (25.0, (-3.2e5, 8.1e6))):
            yield dict(est="Spline", mindist_rel=0.0, pts=s, forces=None, sc=sc, off=list(off))
            yield dict(est="Spline", mindist_rel=0.1, pts=s, forces=[i for i in range(9) if i not in s][:3], sc=sc, off=list(off))
            yield dict(est="VectorSpline2D", poisson=0.5, mindist_rel=0.1, pts=s, forces=None, sc=sc, off=list(off))
        for deg in (0, 1, 2, 3, 4):
            if deg >= 3:
                continue   # five points do not determine a cubic: the six- and nine-point sets below do
            yield dict(est="Trend", degree=deg, pts=s, sc=1.0e5)
    # a repeated station (the same coordinates twice, with their own data values): with forces at the data points that is two forces
    # at one place - singular without damping (not compared), a well-defined optimum with damping (seed C02-11)
    for s in ([0, 2, 4, 6, 0], [1, 3, 5, 7, 8, 3], [0, 1, 2, 3, 4, 4, 0]):
        yield dict(est="Spline", mindist_rel=0.0, pts=s, forces=None, sc=1.0)
        yield dict(est="Spline", mindist_rel=0.1, pts=s, forces=None, sc=1e3)
        yield dict(est="Spline", mindist_rel=0.0, pts=s, forces=[1, 5], sc=1.0)
        yield dict(est="VectorSpline2D", poisson=0.5, mindist_rel=0.1, pts=s, forces=None, sc=1.0)
        for deg in (0, 1):
            yield dict(est="Trend", degree=deg, pts=s, sc=1.0)
    for deg in (0, 1, 2, 3, 4):
        for s in ([0, 1, 2, 3, 4, 5, 6, 7, 8], [0, 1, 2, 3, 5, 6, 7, 8]):
            for sc in (1.0e5, 2.5e4, 1.0):
                yield dict(est="Trend", degree=deg, pts=s, sc=sc)


def _main_cases(tier, seed):
    ks = (4, 5) if tier == "quick" else (4, 5, 6)
    ms = (2, 3) if tier == "quick" else (2, 3, 4)
    nus = (-1.0, 0.0, 0.5) if tier == "quick" else (-1.0, -0.5, 0.0, 0.5, 1.0)
    degs = (0, 1, 2) if tier == "quick" else (0, 1, 2, 3, 4)
    for fi, sc in enumerate(pick_frames(SCALES, tier, seed)):
        for k in ks:
            for si, s in enumerate(itertools.combinations(range(9), k)):
                s = list(s)
                if tier == "thorough" and fi > 0 and si % 3 != fi % 3:
                    continue   # thorough: all subsets in the base frame, a third of them in each further frame
                if tier == "quick":
                    # quick: every 3rd 4-subset and every 6th 5-subset in the base frame, a quarter of those in the
                    # seed-selected frame (all subsets and all frames are in thorough); scikit-learn's per-fit
                    # validation overhead (~3 ms) sets this budget
                    stride = 3 if k == 4 else 6
                    if si % stride != (seed % stride) or (fi > 0 and (si // stride) % 4 != 0):
                        continue
                rest = [i for i in range(9) if i not in s]
                for deg in degs:
                    yield dict(est="Trend", degree=deg, pts=s, sc=sc)
                layouts = [None]
                for m in ms:
                    if m < k:
                        combos = list(itertools.combinations(rest, m))
                        if tier == "quick":
                            combos = combos[:: max(1, len(combos) // 2)][:2]
                        layouts += [list(c) for c in combos]
                for fl in layouts:
                    for md in (0.0, 0.1):
                        if md and fl is not None and tier == "quick":
                            continue
                        yield dict(est="Spline", mindist_rel=md, pts=s, forces=fl, sc=sc)
                    for nu in nus:
                        if fl is not None and tier == "quick" and nu != 0.5:
                            continue
                        if fl is not None and tier == "thorough" and (nu not in (-1.0, 0.5) or fi > 0):
                            continue   # thorough: separate force layouts of the vector spline for two Poisson ratios in the base frame
                        yield dict(est="VectorSpline2D", poisson=nu, mindist_rel=0.1, pts=s, forces=fl, sc=sc)


def _xy(idx, sc, off=(0.0, 0.0)):
    pts = [L33[i] for i in idx]
    e = np.array([(p[0] + JIT[p][0]) * sc + off[0] for p in pts])
    n = np.array([(p[1] + JIT[p][1]) * sc + off[1] for p in pts])
    return e, n


def _weights(kind, npts, comp=0):
    if kind == "none":
        return None
    if kind == "const":
        return np.full(npts, 3.5)
    if kind == "ramp":
        return np.arange(1.0, npts + 1) if comp == 0 else np.arange(float(npts), 0.0, -1.0)
    if kind == "tiny":
        w = np.ones(npts)
        w[npts // 2] = 1e-12
        return w
    if kind == "ultra":
        # weights 1e-18 and 1e-30 of the largest: numerically "no information", but still rows of the system (seed C02-12)
        w = np.ones(npts) * (2.0 if comp else 1.0)
        w[npts // 2] = 1e-18
        w[0] = 1e-30
        return w
    raise ValueError(kind)


def run(case, rec):
    import verde as vd
    import warnings

    sc = case["sc"]
    off = tuple(case.get("off", (0.0, 0.0)))
    ext = 2.0 * sc
    e, n = _xy(case["pts"], sc, off)
    npts = e.size
    qe = np.array([q[0] * sc + off[0] for q in QUERIES]); qn = np.array([q[1] * sc + off[1] for q in QUERIES])
    kind = case["est"]
    vector = kind == "VectorSpline2D"
    if case.get("forces") is not None:
        fe, fn = _xy(case["forces"], sc, off)
    else:
        fe, fn = e, n
    md = case.get("mindist_rel", 0.0) * ext
    # reference design matrices (own kernels)
    if kind == "Trend":
        J = R.trend_design(e, n, case["degree"]); Jq = R.trend_design(qe, qn, case["degree"])
    elif kind == "Spline":
        J = R.spline_design(e, n, fe, fn, md); Jq = R.spline_design(qe, qn, fe, fn, md)
    else:
        J = R.elastic_design(e, n, fe, fn, md, case["poisson"]); Jq = R.elastic_design(qe, qn, fe, fn, md, case["poisson"])

    route = case.get("route", "ctor")

    def make(damping):
        from sklearn.base import clone

        with warnings.catch_warnings():
            warnings.simplefilter("ignore")
            fc = None if case.get("forces") is None else (fe.copy(), fn.copy())
            if kind == "Trend":
                cls, want, other = vd.Trend, dict(degree=case["degree"]), dict(degree=case["degree"] + 2 if case["degree"] < 2 else case["degree"] - 2)
            elif kind == "Spline":
                # (the constructor turns mindist=None into 0; set_params / attribute assignment get the number itself)
                cls, want = vd.Spline, dict(mindist=(md if md else None) if route == "ctor" else md, damping=damping, force_coords=fc)
                other = dict(mindist=3.0 * md + 0.5 * ext, damping=1.0 if damping is None else None, force_coords=None if fc is not None else (fe[:2] + 0.5 * ext, fn[:2]))
            else:
                cls, want = vd.VectorSpline2D, dict(poisson=case["poisson"], mindist=md, damping=damping, force_coords=fc)
                other = dict(poisson=0.25 if case["poisson"] != 0.25 else 0.0, mindist=3.0 * md + 0.5 * ext, damping=1.0 if damping is None else None,
                             force_coords=None if fc is not None else (fe[:2] + 0.5 * ext, fn[:2]))
            if route == "ctor":
                return cls(**want)
            if route == "clone":
                return clone(cls(**want))
            est = cls(**other)
            if route == "set_params":
                est.set_params(**want)
            else:
                for k_, v_ in want.items():
                    setattr(est, k_, v_)
            return est

    dampings = [None] if kind == "Trend" else DAMP
    # "mixdt" (round 8, seed C02-15): an integer-dtype east component next to a non-integer float north component, for weights and data
    wkinds = ["none", "ramp", "ultra", "mixdt"] if vector else ["none", "const", "ramp", "tiny", "ultra"]
    nrow = 2 * npts if vector else npts
    datas = [np.eye(nrow)[i] for i in range(nrow)] + [np.arange(1.0, nrow + 1) * 0.5 - 1.0]
    if vector:
        datas.append(np.concatenate([np.arange(npts) * 2.0 - 3.0, np.arange(npts) * 0.5 - 1.25]))
    ncompared = 0
    for damping in dampings:
        for wk in wkinds:
            if vector:
                if wk == "mixdt":
                    w = (np.arange(1, npts + 1, dtype=np.int64), np.arange(float(npts), 0.0, -1.0) + 0.25)
                else:
                    w = None if wk == "none" else (_weights(wk, npts, 0), _weights(wk, npts, 1))
                wref = None if w is None else np.concatenate([np.asarray(x, dtype=float) for x in w])
            else:
                w = _weights(wk, npts)
                wref = w
            ref0 = R.solve(J, np.zeros(nrow), wref, damping)
            cond = ref0["cond"]
            A = ref0["A"]
            if A.shape[0] < A.shape[1] or not np.isfinite(cond) or (damping is None and not ref0["fullrank"]):
                rec.skip("rank deficient / under-determined: outside the property")
                continue
            ceff = cond if damping is None else cond * cond
            if 256 * ceff * R.EPS > 1e-3:
                rec.skip("ill-conditioned (bound > 1e-3 relative): not compared")
                continue
            Jqs = Jq / ref0["scale"]
            est = None
            for di, d in enumerate(datas):
                # every other data vector REFITS the instance that was fitted to the previous vector on the same points (round 8, seed
                # C02-16: a per-instance Jacobian cache scaled in place by the solver); the rest use a new instance
                if est is None or di % 2 == 0:
                    est = make(damping)
                dd = (d[:npts], d[npts:]) if vector else d
                if vector and di == len(datas) - 1:
                    dd = (d[:npts].astype(np.int64), d[npts:])
                if npts % 2 == 0 and (di + len(case["pts"])) % 3 == 0:
                    # the same points, data and weights as 2 x n/2 arrays (gridded input): seed C02-13, components stacked row-wise
                    r2 = lambda a: None if a is None else (tuple(x.reshape(2, -1) for x in a) if isinstance(a, tuple) else a.reshape(2, -1))
                    fit = call(rec, est.fit, (e.reshape(2, -1), n.reshape(2, -1)), r2(dd), r2(w))
                else:
                    fit = call(rec, est.fit, (e, n), dd, w)
                if raised(fit):
                    rec.check(False, "%s fit raised %r" % (kind, fit))
                    return
                pred = call(rec, est.predict, (qe, qn))
                if raised(pred):
                    rec.check(False, "predict raised %r" % (pred,))
                    return
                got = np.concatenate([np.asarray(p) for p in pred]) if vector else np.asarray(pred)
                ref = R.solve(J, d, wref, damping)
                ps = ref["params"] * ref["scale"]
                want = Jq @ ref["params"]
                # forward error of a least-squares solution: cond * |x| plus the residual term cond^2 * |r| / |A|
                # (undamped, SVD/QR type solver); the damped problem goes through the normal equations: cond^2 (|x| + |b|/|A|)
                resid = float(np.linalg.norm(ref["A"] @ ps - ref["b"]))
                bnorm = float(np.linalg.norm(ref["b"]))
                if damping is None:
                    base = float(np.linalg.norm(ps)) + cond * resid / ref["smax"]
                else:
                    base = float(np.linalg.norm(ps)) + bnorm / ref["smax"]
                tol = 256 * ceff * R.EPS * max(base, 1e-300) * np.linalg.norm(Jqs, axis=1) + 1e-300
                err = np.abs(got - want)
                r = float(np.max(err / tol))
                rec.ratio(r)
                ncompared += 1
                if r > 1:
                    rec.check(False, "%s damping=%r weights=%s data#%d: predictions %s differ from the reference optimum %s (cond %.3g)"
                              % (case, damping, wk, di, got.tolist()[:4], want.tolist()[:4], cond))
                else:
                    rec.nchecks += 1
                # metamorphic: scaling all weights leaves an undamped fit unchanged
                if damping is None and wk == "ramp" and di in (0, len(datas) - 1):
                    for c in (1e-3, 7.0, 1e4, 1e-10, 1e12):
                        est2 = make(None)
                        w2 = tuple(x * c for x in w) if vector else w * c
                        f2 = call(rec, est2.fit, (e, n), dd, w2)
                        p2 = call(rec, est2.predict, (qe, qn)) if not raised(f2) else f2
                        if raised(p2):
                            rec.check(False, "fit with scaled weights raised %r" % (p2,))
                            continue
                        got2 = np.concatenate([np.asarray(p) for p in p2]) if vector else np.asarray(p2)
                        rec.check(bool(np.all(np.abs(got2 - got) <= 2 * tol)), "undamped fit changed when all weights were multiplied by %g" % c)
            # metamorphic: a vanishing weight equals removal of the datum (undamped, over-determined, scalar)
            if damping is None and wk == "none" and not vector and A.shape[0] > A.shape[1] + 0:
                for i in range(npts):
                    keep = [j for j in range(npts) if j != i]
                    refr = R.solve(J[keep], np.zeros(npts - 1))
                    if len(keep) < J.shape[1] or not refr["fullrank"] or refr["cond"] > 1e3:
                        rec.skip("removal relation: reduced problem not well conditioned")
                        continue
                    d = datas[-1]
                    wi = np.ones(npts); wi[i] = 1e-12
                    a = make(None); b = make(None)
                    fa = call(rec, a.fit, (e, n), d, wi)
                    fb = call(rec, b.fit, (e[keep], n[keep]), d[keep])
                    if raised(fa) or raised(fb):
                        rec.check(False, "removal relation: fit raised %r %r" % (fa, fb))
                        continue
                    if kind == "Spline" and case.get("forces") is None:
                        continue
                    pa, pb = np.asarray(a.predict((qe, qn))), np.asarray(b.predict((qe, qn)))
                    scale = float(np.max(np.abs(pb))) + float(np.max(np.abs(d)))
                    tolr = (1e-12 * refr["cond"] ** 2 * 1e3 + 256 * refr["cond"] * R.EPS) * scale * (1 + float(np.max(np.linalg.norm(Jqs, axis=1))))
                    rec.check(bool(np.all(np.abs(pa - pb) <= tolr)), "datum %d with weight 1e-12 still influences the fit: %s vs %s (tol %.3g)"
                              % (i, pa.tolist()[:3], pb.tolist()[:3], tolr))
    rec.count("fits_compared", ncompared)
    rec.trivial = ncompared == 0
    rec.cls("%s/%s" % (kind, "forces at data" if case.get("forces") is None else "%d separate forces" % len(case["forces"])) if kind != "Trend"
            else "Trend/%d" % case["degree"])
