"""
C17  longitude_continuity yields a valid region with unchanged angular meaning.

Space: every (W, E) pair of the 5-degree lattice of [-180, 360] with |E - W| <= 360 that describes a
representable arc, x latitude bands x coordinate forms (none / whole lattice as 1-D array / 2-D arrays
with a third coordinate), plus the invalid inputs.  thorough adds the 2.5-degree lattice shifted by a
quarter degree (off-lattice, non-integer) and integer / float32 dtypes.
Oracle: exact arithmetic modulo 360 (Fractions).
"""
from fractions import Fraction as F

import numpy as np

from mc.util import call, raised

ID = "C17"
LEVEL = "model_checking"
RULE = (
    "All (W, E) on the 5-degree lattice of [-180, 360] with |E-W| <= 360 whose eastward arc is contiguous in the [0,360] or the "
    "[-180,180] convention (non-representable arcs are enumerated and counted as outside the quantifier), x 3 latitude bands "
    "(region only) + the whole lattice of longitudes as a 1-D array, as 2-D arrays with a third coordinate, and the sub-arrays of non-negative / <= 180 / seam-only longitudes (arrays that already look like one convention); every returned "
    "bound and longitude is checked with exact arithmetic mod 360 and every lattice longitude's membership with verde.inside. "
    "Off-lattice: W = k/10 and k/7 degrees (every 7th k in quick, rotated by VERIF_SEED; all in thorough) x 8 non-dyadic widths, with the "
    "region's own corners (bitwise), the midpoint, both one-ulp neighbours outside, points 1 degree outside and all their 360-degree "
    "aliases as longitudes: congruence and width up to 16 ulp of 360, membership decided by exact rational arithmetic with a 1e-9 guard band "
    "around the bounds except for the bitwise corners, which must be inside. "
    "Non-trivial: representable arc of non-zero width, or an invalid input that must be refused."
)
ASSUMPTIONS = ["widths within 0.01 degree of (but not equal to) 360 are excluded as the quantifier says; the lattices contain none",
               "for W > E with |E - W| = 360 (width 0 or 360 depending on the reading) either reading is accepted"]

LATS = [[-90.0, 90.0], [-10.0, 10.0], [0.0, 0.0]]
CORNER_WIDTHS = [1e-7, 1e-4, 0.003, 0.1, 1.3, 10.7, 77.7, 123.4, 200.1, 300.3, 359.5]   # narrow arcs: seed C17-8 (relative "full globe" test)
GUARD = F(1, 10 ** 9)      # longitudes closer than this to a bound (and not bitwise equal to it) are not classified
ULP360 = F(1, 2 ** 44)     # 16 ulp of 360: bound on the round-off of the three operations applied to a bound or a longitude


def lattice(tier):
    base = [F(v) for v in range(-180, 361, 5)]
    if tier == "thorough":
        shifted = [F(-180) + F(1, 4) + F(5, 2) * k for k in range(0, 216)]
        shifted = [v for v in shifted if v <= 360]
        return [("5deg", base), ("2.5deg+0.25", shifted)]
    return [("5deg", base)]


def bounds(tier, seed):
    return dict(lattices=[name for name, _ in lattice(tier)], latitude_bands=LATS,
                forms=["region only", "1-D lattice of longitudes", "2-D + extra coordinate"],
                dtypes=["float64"] + (["int64", "float32"] if tier == "thorough" else []))


def arc(W, E):
    """Reference: classify the arc. Returns dict(kind=..., widths=set) or None if not representable."""
    W, E = F(W), F(E)
    if E - W == 360:
        return dict(kind="full", widths={F(360)})
    if W > E and W - E == 360:
        return dict(kind="either", widths={F(0), F(360)})
    width = (E - W) if W <= E else (E - W) % 360
    w0 = W % 360
    w1 = ((W + 180) % 360) - 180
    fits = (w0 + width <= 360) or (w1 + width <= 180)
    # a zero-width arc sitting exactly on the right end of a convention
    if width == 0:
        fits = True
    if not fits:
        return None
    return dict(kind="arc", widths={width})


def cases(tier, seed):
    for lname, lat in lattice(tier):
        vals = [float(v) for v in lat]
        for W in vals:
            for E in vals:
                if abs(E - W) > 360:
                    continue
                for li, form, dt in ((0, "none", "f8"), (1, "none", "f8"), (2, "none", "f8"), (0, "1d", "f8"), (1, "2d+extra", "f8"),
                                     (1, "1d-nonneg", "f8"), (1, "1d-le180", "f8"), (1, "1d-seams", "f8")):
                    yield dict(kind="pair", lat=lname, W=W, E=E, latband=li, form=form, dtype=dt)
                if tier == "thorough":
                    if lname == "5deg":
                        yield dict(kind="pair", lat=lname, W=W, E=E, latband=1, form="1d", dtype="i8")
                    yield dict(kind="pair", lat=lname, W=W, E=E, latband=1, form="1d", dtype="f4")
    # off-lattice, non-dyadic bounds (tenths and sevenths of a degree): every floating-point operation of the function rounds.
    # The region's own corners, given as coordinates, must lie inside the returned region (finding D8).
    stride = 7 if tier == "quick" else 1
    for den, lo, hi in ((10, -1800, 3600), (7, -1260, 2520)):
        for k in range(lo + (seed % stride), hi + 1, stride):
            for width in CORNER_WIDTHS:
                yield dict(kind="corner", num=k, den=den, width=width)
    # bounds NEXT TO a seam, not on it (round 8, seed C17-16: an approximate comparison with 360 snapping the east bound): E or W within
    # 2e-3 ... 1e-9 degrees of 0 / 180 / 360 / -180, the other bound anywhere
    for seam in (0.0, 180.0, 360.0, -180.0):
        for delta in (2e-3, 1e-3, 1e-5, 1e-9, -2e-3, -1e-3, -1e-5, -1e-9):
            b_ = seam + delta
            if not -180 <= b_ <= 360:
                continue
            for other in (-170.5, -90.25, -10.0, 10.0, 45.5, 120.5, 179.0, 181.0, 270.25, 350.0):
                for W_, E_ in ((other, b_), (b_, other)):
                    if -180 <= W_ <= 360 and -180 <= E_ <= 360 and W_ != E_:
                        yield dict(kind="corner", W=W_, E=E_)
    for bad in ("w_lt_-180", "e_gt_360", "w_gt_360", "e_lt_-180", "span_gt_360", "s_lt_-90", "n_gt_90",
                "lon_gt_360", "lon_lt_-180", "lat_gt_90", "lat_lt_-90", "w_gt_360_e_small", "e_lt_-180_w_big", "w_lt_-180_e_big",
                "e_gt_360_w_small", "s_gt_90_n_below", "n_lt_-90_s_above"):
        for delta in (5.0, 0.5, 1e-3, 1e-9):
            yield dict(kind="invalid", bad=bad, delta=delta)
    # out-of-range coordinates are rejected whatever the region looks like: ordinary, crossing 0, crossing 180, full globe in
    # several spellings, zero width (seed C17-r2_2: a full-globe fast path that skipped the coordinate checks)
    # an out-of-range value is rejected even when the same array also holds NaNs (seed C17-7: max / min instead of any)
    for bad in ("lon_gt_360", "lon_lt_-180", "lat_gt_90", "lat_lt_-90"):
        for nanpos in ("lon_first", "lon_last", "lat_first", "lat_last", "both"):
            for delta in (5.0, 1e-3):
                yield dict(kind="invalid", bad=bad, delta=delta, nan=nanpos)
    for bad in ("lon_gt_360", "lon_lt_-180", "lat_gt_90", "lat_lt_-90"):
        for reg in ([350.0, 10.0], [170.0, -170.0], [0.0, 360.0], [-180.0, 180.0], [-72.5, 287.5], [40.0, 40.0], [-20.0, 20.0], [180.0, 360.0]):
            for delta in (5.0, 1e-3):
                yield dict(kind="invalid", bad=bad, reg=reg, delta=delta)


def _lons(lat_name, tier_vals):
    return tier_vals


def _corner(case, rec, vd):
    if "W" in case:
        W, E = case["W"], case["E"]
        case = dict(case, width=float((F(E) - F(W)) % 360))
    else:
        W = case["num"] / case["den"]
        E = W + case["width"]
    if E > 360 or E % 180 == 0 or W % 180 == 0:
        rec.trivial = True
        rec.cls("corner:out-of-domain")
        return rec.skip("E beyond 360 or a bound on a seam (the lattice cases cover the seams)")
    a = arc(W, E)
    if a is None:
        rec.trivial = True
        rec.cls("non-representable")
        return rec.skip("non-representable arc (outside the quantifier)")
    width = (F(E) - F(W)) % 360
    mid = W + case["width"] / 2
    out_e = E + min(1.0, (360 - case["width"]) / 2)
    out_w = W - min(1.0, (360 - case["width"]) / 2)
    cand = [W, E, mid, out_e, out_w, W + 360, E + 360, W - 360, E - 360, mid + 360, mid - 360, np.nextafter(W, -1e9), np.nextafter(E, 1e9)]
    lon = np.array([v for v in cand if -180 <= v <= 360])
    la = np.zeros(lon.size)
    region = [W, E, -10.0, 10.0]
    got = call(rec, vd.longitude_continuity, (lon, la), region)
    if raised(got):
        return rec.check(False, "longitude_continuity raised %r for the representable arc %r" % (got, region))
    coords_out, reg_out = got
    reg_out = [float(v) for v in np.asarray(reg_out).tolist()]
    lon_out = np.asarray(coords_out[0], dtype=float)
    Wp, Ep = F(reg_out[0]), F(reg_out[1])
    rec.cls("corner:%s" % ("360" if Wp >= 0 else "180"))
    if not rec.check(Wp <= Ep, "returned region has W > E: %r -> %r" % (region, reg_out)):
        return
    near = lambda x: min(x % 360, (-x) % 360)
    rec.check(near(Wp - F(W)) <= ULP360 and near(Ep - F(E)) <= ULP360, "returned bounds %r not congruent to %r modulo 360 (beyond round-off)" % (reg_out[:2], region[:2]))
    rec.check(abs((Ep - Wp) - width) <= 2 * ULP360, "width %r of the returned region differs from the eastward angle %r" % (float(Ep - Wp), float(width)))
    rec.check(reg_out[2:] == [-10.0, 10.0], "latitudes changed")
    # longitudes of a narrower dtype than the latitudes (integer, float32): the latitudes of the points come back untouched (seed C17-15)
    lat_f = np.array([-9.7, 0.3, 5.55, 9.999, -0.125])
    for lon_n in (np.array([0, 45, 90, 135, 180], dtype=np.int64), np.array([0.5, 45.25, 90.0, 135.75, 180.0], dtype=np.float32)):
        got_n = call(rec, vd.longitude_continuity, (lon_n, lat_f.copy()), region)
        if raised(got_n):
            rec.check(False, "longitude_continuity raised %r for %s longitudes" % (got_n, lon_n.dtype))
        else:
            rec.check(np.array_equal(np.asarray(got_n[0][1], dtype=float), lat_f), "point latitudes changed when the longitudes are %s: %s" % (lon_n.dtype, np.asarray(got_n[0][1]).tolist()))
            rec.check(all(near(F(float(o)) - F(float(i))) <= ULP360 for i, o in zip(lon_n.tolist(), np.asarray(got_n[0][0], dtype=float).tolist())), "%s longitudes not congruent to the inputs" % lon_n.dtype)
    rec.check(all(near(F(float(o)) - F(float(i))) <= ULP360 for i, o in zip(lon.tolist(), lon_out.tolist())), "longitudes not congruent to the inputs modulo 360")
    ins = call(rec, vd.inside, (lon_out, np.asarray(coords_out[1], dtype=float)), reg_out)
    if raised(ins):
        return rec.check(False, "inside raised %r on the returned region %r" % (ins, reg_out))
    wrong = []
    ntest = 0
    for L, o, got_in in zip(lon.tolist(), lon_out.tolist(), np.asarray(ins).tolist()):
        off = (F(L) - F(W)) % 360
        if L == W or L == E:
            want = True            # the region's own corner, bit for bit
        elif GUARD <= off <= width - GUARD:
            want = True
        elif width + GUARD <= off <= 360 - GUARD:
            want = False
        else:
            continue               # within round-off of a bound: not decided by the property
        ntest += 1
        if bool(got_in) != want:
            wrong.append((L, o, bool(got_in), want))
    rec.count("membership_tests", ntest)
    rec.check(not wrong, "membership (input longitude, returned longitude, inside, expected) %r differs from the angular arc: region %r -> %r"
              % (wrong[:4], region, reg_out))


def run(case, rec):
    import verde as vd

    if case["kind"] == "invalid":
        bad = case["bad"]
        # just outside the accepted ranges (the exact bounds -180, 360, +-90 and a span of exactly 360 are accepted: they are
        # part of the lattice); values far outside as well
        d_ = case.get("delta", 5.0)
        reg = dict(
            [("w_lt_-180", [-180.0 - d_, 10.0, -10.0, 10.0]), ("e_gt_360", [10.0, 360.0 + d_, -10.0, 10.0]),
             ("w_gt_360", [360.0 + d_, 360.0 + 2 * d_, -10.0, 10.0]), ("e_lt_-180", [-180.0 - 2 * d_, -180.0 - d_, -10.0, 10.0]),
             ("span_gt_360", [-180.0, 180.0 + d_, -10.0, 10.0]), ("s_lt_-90", [0.0, 10.0, -90.0 - d_, 10.0]),
             ("n_gt_90", [0.0, 10.0, -10.0, 90.0 + d_]),
             # one bound out of range while the other is far on the other side (span still <= 360), and S / N both off one end
             ("w_gt_360_e_small", [360.0 + d_, 20.0, -10.0, 10.0]), ("e_lt_-180_w_big", [-100.0, -180.0 - d_, -10.0, 10.0]),
             ("w_lt_-180_e_big", [-180.0 - d_, 170.0, -10.0, 10.0]), ("e_gt_360_w_small", [10.0, 360.0 + d_, -10.0, 10.0]),
             ("s_gt_90_n_below", [0.0, 10.0, 90.0 + d_, 50.0]), ("n_lt_-90_s_above", [0.0, 10.0, -50.0, -90.0 - d_])]
        ).get(bad, [0.0, 20.0, -10.0, 10.0])
        if case.get("reg") is not None:
            reg = [case["reg"][0], case["reg"][1], -10.0, 10.0]
        lon = np.array([0.0, 5.0, 10.0])
        la = np.array([0.0, 1.0, 2.0])
        if bad == "lon_gt_360":
            lon = np.array([0.0, 5.0, 360.0 + d_])
        if bad == "lon_lt_-180":
            lon = np.array([-180.0 - d_, 5.0, 10.0])
        if bad == "lat_gt_90":
            la = np.array([0.0, 90.0 + d_, 2.0])
        if bad == "lat_lt_-90":
            la = np.array([-90.0 - d_, 1.0, 2.0])
        if case.get("nan"):
            lon = np.concatenate([[1.0], lon, [2.0]]); la = np.concatenate([[0.5], la, [0.25]])
            np_ = case["nan"]
            if np_ in ("lon_first", "both"):
                lon[0] = np.nan
            if np_ == "lon_last":
                lon[-1] = np.nan
            if np_ in ("lat_first",):
                la[0] = np.nan
            if np_ in ("lat_last", "both"):
                la[-1] = np.nan
        got = call(rec, vd.longitude_continuity, (lon, la), reg)
        rec.check(raised(got) and isinstance(got.exc, ValueError), "invalid input %s (NaN: %s) must raise ValueError, got %r" % (bad, case.get("nan"), got))
        rec.cls("refusal:" + bad)
        return
    if case["kind"] == "corner":
        return _corner(case, rec, vd)
    W, E = case["W"], case["E"]
    a = arc(W, E)
    if a is None:
        rec.trivial = True
        rec.skip("non-representable arc (outside the quantifier)")
        rec.cls("non-representable")
        return
    lat = LATS[case["latband"]]
    dt = {"f8": np.float64, "i8": np.int64, "f4": np.float32}[case["dtype"]]
    region = [W, E, lat[0], lat[1]]
    if case["dtype"] == "i8":
        region = [int(v) for v in region]
    fkey = "lc W=%g E=%g" % (W, E)
    form = case["form"]
    vals = [float(v) for v in dict(lattice("thorough"))[case["lat"]]]
    if form == "none":
        got = call(rec, vd.longitude_continuity, None, region)
        coords_out = None
        reg_out = got
    else:
        if form == "1d-nonneg":      # arrays that already "look like" the [0, 360] convention
            vals = [v for v in vals if v >= 0]
        elif form == "1d-le180":     # arrays that already "look like" the [-180, 180] convention
            vals = [v for v in vals if v <= 180]
        elif form == "1d-seams":     # only values sitting on the seams
            vals = [v for v in vals if v % 180 == 0] or vals[:1]
        lon = np.array(vals, dtype=dt)
        la = np.linspace(lat[0], lat[1], lon.size).astype(np.float64)
        if form == "2d+extra":
            pad = (-lon.size) % 4
            lon = np.concatenate([lon, lon[:pad]]).reshape(4, -1)
            la = np.concatenate([la, la[:pad]]).reshape(4, -1)
            extra = np.arange(lon.size, dtype=float).reshape(lon.shape) * 7.5
            cin = (lon, la, extra)
        else:
            cin = (lon, la)
        got = call(rec, vd.longitude_continuity, cin, region)
        if not raised(got):
            rec.check(isinstance(got, tuple) and len(got) == 2, "expected (coordinates, region)")
            coords_out, reg_out = got
    if raised(got):
        rec.check(False, "longitude_continuity raised %r for a representable arc" % (got,), fkey=fkey if isinstance(got.exc, ValueError) and False else None)
        return
    reg_out = [float(v) for v in np.asarray(reg_out).tolist()]
    rec.check(len(reg_out) == 4, "region must keep 4 entries")
    Wp, Ep = F(reg_out[0]), F(reg_out[1])
    rec.check(reg_out[2] == lat[0] and reg_out[3] == lat[1], "latitudes changed: %r" % (reg_out,))
    kind = a["kind"]
    rec.cls(kind + ("/zero-width" if a["widths"] == {F(0)} else ""))
    rec.trivial = a["widths"] == {F(0)}
    valid = rec.check(Wp <= Ep, "returned region has W > E: %r -> %r" % (region, reg_out), fkey=fkey)
    if kind == "full":
        rec.check(Wp == 0 and Ep == 360, "full globe must become (0, 360), got %r" % (reg_out,), fkey=fkey)
    else:
        cong = (Wp - F(W)) % 360 == 0 and (Ep - F(E)) % 360 == 0
        if kind == "either" and Wp == 0 and Ep == 360:
            cong = True
        rec.check(cong, "returned bounds %r are not congruent to the inputs (%r, %r) modulo 360" % (reg_out[:2], W, E))
        rec.check((Ep - Wp) in a["widths"], "width %r of the returned region is not the eastward angle %s from W to E (input %r)"
                  % (float(Ep - Wp), sorted(float(x) for x in a["widths"]), region), fkey=fkey)
    width = Ep - Wp
    if coords_out is not None:
        cin_arr = [np.asarray(c) for c in cin]
        out = np.asarray(coords_out)
        rec.check(out.shape[0] == len(cin), "number of coordinate arrays changed")
        rec.check(out.shape[1:] == cin_arr[0].shape, "coordinate shape changed: %s -> %s" % (cin_arr[0].shape, out.shape[1:]))
        for k in range(1, len(cin)):
            rec.check(bool(np.all(out[k] == cin_arr[k])), "coordinate #%d (not a longitude) was modified" % k)
        lon_in = cin_arr[0].ravel().tolist()
        lon_out = np.asarray(out[0], dtype=float).ravel().tolist()
        badc = [(i, o) for i, o in zip(lon_in, lon_out) if (F(float(o)) - F(float(i))) % 360 != 0]
        rec.check(not badc, "returned longitudes not congruent to the inputs mod 360: %r" % (badc[:3],))
        if valid:
            conv360 = Wp >= 0 and Ep <= 360
            conv180 = Wp >= -180 and Ep <= 180
            in360 = all(0 <= o <= 360 for o in lon_out)
            in180 = all(-180 <= o <= 180 for o in lon_out)
            rec.check((conv360 and in360) or (conv180 and in180),
                      "longitudes are not in the convention of the returned region %r (range %r..%r)" % (reg_out[:2], min(lon_out), max(lon_out)))
            ins = call(rec, vd.inside, (np.asarray(out[0], dtype=float), np.asarray(out[1], dtype=float)), reg_out)
            if raised(ins):
                rec.check(False, "inside raised %r on the returned region" % (ins,))
            else:
                ins = np.asarray(ins).ravel().tolist()
                lat_in = cin_arr[1].ravel().tolist()
                wrong = []
                for L, la_v, got_in in zip(lon_in, lat_in, ins):
                    if not (lat[0] <= la_v <= lat[1]):
                        continue
                    off = (F(float(L)) - F(W)) % 360
                    if kind == "full" or width == 360:
                        want = True
                    elif kind == "either":
                        want = off <= width
                    else:
                        want = off <= width
                    if bool(got_in) != want:
                        wrong.append((L, bool(got_in), want))
                rec.check(not wrong, "membership differs from the angular arc for longitudes %r (input region %r -> %r)"
                          % (wrong[:4], region, reg_out), fkey=fkey)
                rec.count("membership_tests", len(ins))
