"""
C11  Blocked cross-validators never split a block and partition the data.

One case = one block-occupancy vector realised as real points (two pin points fix the region that
split() infers) and one cross-validator family; inside the case every parameter combination is run.
"""
import itertools
import math
import warnings

import numpy as np

from mc.util import raised

ID = "C11"
LEVEL = "model_checking"
RULE = (
    "All block-occupancy vectors (first/last cell 1..3 points incl. the pin, other cells 0..3; thorough 0..4) of the layouts 1x2..1x5, "
    "2x2, 2x3 (thorough adds 1x6, 1x7, 2x4) realised as points strictly inside their cells; BlockKFold: n_splits = 2..#occupied (and "
    "#occupied+1, which must raise) x shuffle x balance x seeds 0..3 x {shape, spacing} x feature matrix {float C-ordered, integer dtype, Fortran-ordered}; BlockShuffleSplit (layouts with <= 4 cells; "
    "thorough <= 6): test_size {0.1,0.25,0.5,0.75,2} x train_size {None,0.5} plus explicit test_size=None with train_size {0.5,0.75,2,None} x balancing {1,2,3} x n_splits {1,2,3} x seeds 0..3. "
    "Every split is checked against block membership known by construction. Non-trivial: >= 3 occupied blocks with unequal populations."
    " Added axes: integer and Fortran feature matrices, attribute route, sparse 25^2 / 40^2 / 60^2 block grids, non-square blocks via spacing=(s_n, s_e), blocks of 2^-10 at coordinates of 2^20, populations (1,1,1,1,3,8) in every order and all vectors over {1, 8}; a fall-back is accepted only when the documented balancing rule (own exact model) fails."
)
ASSUMPTIONS = ["scikit-learn's ShuffleSplit/KFold are trusted for the number of blocks per side; the candidates drawn by BlockShuffleSplit are "
               "observed through a recording subclass installed as verde.model_selection.ShuffleSplit",
               "balance bound: |fold - total/parts| < largest block + parts, the bound implied by the documented crossing rule"]


def bounds(tier, seed):
    return dict(layouts=_layouts(tier), max_points_per_cell=3 if tier == "quick" else 4, seeds=[0, 3])


def _layouts(tier):
    l = [[2, 1], [3, 1], [4, 1], [5, 1], [2, 2], [3, 2]]
    if tier == "thorough":
        l += [[6, 1], [7, 1], [4, 2]]
    return l


def cases(tier, seed):
    cmax = 3 if tier == "quick" else 4
    for nbx, nby in _layouts(tier):
        ncell = nbx * nby
        if tier == "thorough" and ncell >= 7:
            cm = 2
        else:
            cm = cmax
        mids = [range(0, cm + 1)] * (ncell - 2)
        for first in range(1, cm + 1):
            for mid in itertools.product(*mids):
                for last in range(1, cm + 1):
                    occ = [first] + list(mid) + [last]
                    yield dict(cv="kfold", layout=[nbx, nby], occ=occ, spec="shape")
                    if ncell <= 4:
                        yield dict(cv="kfold", layout=[nbx, nby], occ=occ, spec="spacing")
                        # other representations of the feature matrix: integer dtype (coordinates scaled by 20), Fortran order
                        yield dict(cv="kfold", layout=[nbx, nby], occ=occ, spec="spacing", rep="int")
                        yield dict(cv="kfold", layout=[nbx, nby], occ=occ, spec="shape", rep="F")
                        # parameters assigned as attributes after construction with other values
                        yield dict(cv="kfold", layout=[nbx, nby], occ=occ, spec="shape", route="attr")
                        # non-square blocks; tiny blocks far from the origin
                        for rep in ("aniso", "fine"):
                            for spk in ("spacing", "shape"):
                                yield dict(cv="kfold", layout=[nbx, nby], occ=occ, spec=spk, rep=rep)
                                if max(occ) <= 2:
                                    yield dict(cv="shuffle", layout=[nbx, nby], occ=occ, spec=spk, rep=rep)
                    if ncell <= (4 if tier == "quick" else 6) and (tier == "quick" or max(occ) <= 3):
                        yield dict(cv="shuffle", layout=[nbx, nby], occ=occ, spec="shape")
    yield dict(cv="badX", layout=[2, 2], occ=[1, 1, 1, 1], spec="shape")
    # very uneven neighbouring block populations (one block eight times its neighbours): every order of (1,1,1,1,3,8) and every
    # vector over {1, 8} on six blocks in a row (seed C11-13: split points nudged towards the ideal sum until two of them coincide)
    uneven = sorted(set(itertools.permutations((1, 1, 1, 1, 3, 8)))) + list(itertools.product((1, 8), repeat=6))
    for occ in uneven:
        yield dict(cv="kfold", layout=[6, 1], occ=list(occ), spec="shape")
    # fine, sparsely occupied block grids: few points in many blocks, block ids spread over a wide range (seed C11-8: a membership
    # test that is only wrong once numpy takes its sorting path); the occupied cells follow two fixed arithmetic patterns
    for nb, (a, b), ncells in ((40, (7, 11), 46), (25, (3, 8), 30), (60, (13, 7), 35)):
        occ = [0] * (nb * nb)
        for i in range(ncells):
            occ[((b * i) % nb) * nb + (a * i) % nb] += 1 + i % 3
        occ[0] = max(occ[0], 1); occ[-1] = max(occ[-1], 1)
        for cvk in ("kfold", "shuffle"):
            yield dict(cv=cvk, layout=[nb, nb], occ=occ, spec="shape", splits=[2, 3, 7])


def _points(layout, occ):
    nbx, nby = layout
    e, n, lab = [], [], []
    for b, c in enumerate(occ):
        bx, by = b % nbx, b // nbx
        k = c
        if b == 0:
            e.append(0.0); n.append(0.0); lab.append(0); k -= 1
        if b == len(occ) - 1:
            k -= 1
        for j in range(k):
            step_e, step_n = min(0.15, 0.7 / max(c, 1)), min(0.1, 0.6 / max(c, 1))     # stay inside the cell for large populations
            e.append(bx + 0.2 + step_e * j); n.append(by + 0.3 + step_n * j); lab.append(b)
        if b == len(occ) - 1:
            e.append(float(nbx)); n.append(float(nby)); lab.append(b)
    # interleave so that block membership is not contiguous in the index space
    order = list(range(len(e)))
    order = order[::2] + order[1::2]
    return np.array(e)[order], np.array(n)[order], [lab[i] for i in order]


def _check_split(rec, train, test, labels, n, what):
    train, test = np.asarray(train), np.asarray(test)
    st, ss = set(train.tolist()), set(test.tolist())
    ok = rec.check(len(st) == train.size and len(ss) == test.size, "%s: duplicate indices" % what)
    rec.check(not (st & ss), "%s: train and test overlap: %s" % (what, sorted(st & ss)))
    rec.check((st | ss) == set(range(n)), "%s: train+test do not cover all samples" % what)
    bt = {labels[i] for i in st}
    bs = {labels[i] for i in ss}
    rec.check(not (bt & bs), "%s: block(s) %s contribute points to both sides (train %s / test %s)" % (what, sorted(bt & bs), sorted(st), sorted(ss)))
    return ss, bs


def _ref_partition(pops, parts):
    """Documented rule of verde.utils.partition_by_sum, in exact integer arithmetic: split points or None if it cannot partition."""
    if parts > len(pops):
        return None
    cum = list(itertools.accumulate(pops))
    ideal = cum[-1] // parts
    idx = [sum(1 for c in cum if c <= k * ideal) for k in range(1, parts)]
    if len(set(idx)) != len(idx) or 0 in idx:
        return None
    return idx


def run(case, rec):
    import verde as vd
    import verde.model_selection as ms
    from sklearn.model_selection import ShuffleSplit as SkShuffle

    nbx, nby = case["layout"]
    occ = case["occ"]
    e, n, labels = _points(case["layout"], occ)
    X = np.column_stack([e, n])
    npts = len(labels)
    blocks = sorted(set(labels))
    nocc = len(blocks)
    pop = {b: labels.count(b) for b in blocks}
    spec = dict(shape=(nby, nbx)) if case["spec"] == "shape" else dict(spacing=1.0)
    rep = case.get("rep")
    if rep == "int":
        X = np.round(X * 20).astype(np.int64)
        if "spacing" in spec:
            spec = dict(spacing=20)
    elif rep == "F":
        X = np.asfortranarray(X)
    elif rep == "aniso":
        # blocks that are not square, given as spacing=(s_north, s_east) with s_north != s_east (seed C11-10)
        X = np.column_stack([e * 2.5, n])
        spec = dict(spacing=(1.0, 2.5)) if case["spec"] == "spacing" else spec
    elif rep == "fine":
        # millimetre blocks at coordinates of a million (exactly representable: powers of two): the ratio coordinate / block size is
        # 2^30; nearest-centre searches that expand |x - c|^2 lose the blocks there (seed C11-9)
        X = np.column_stack([e * 2.0 ** -10 + 2.0 ** 20, n * 2.0 ** -10 - 2.0 ** 20])
        spec = dict(spacing=2.0 ** -10) if case["spec"] == "spacing" else spec
    rec.trivial = not (nocc >= 3 and len(set(pop.values())) > 1)
    if case["cv"] == "badX":
        rec.trivial = True
        for cv in (vd.BlockKFold(n_splits=2, **spec), vd.BlockShuffleSplit(n_splits=1, random_state=0, **spec)):
            rec.trans()
            try:
                list(cv.split(np.column_stack([e, n, e])))
                rec.check(False, "X with 3 columns must raise")
            except ValueError:
                pass
            except Exception as exc:  # noqa: BLE001
                rec.check(False, "X with 3 columns raised %r instead of ValueError" % (exc,))
        return
    if case["cv"] == "kfold":
        for n_splits in case.get("splits") or range(2, nocc + 2):
            for shuffle in (False, True):
                for balance in (True, False):
                    for sd in ((0, 1, 2, 3) if shuffle else (None,)):
                        what = "BlockKFold(n_splits=%d, shuffle=%s, balance=%s, seed=%s, %s) occ=%s" % (n_splits, shuffle, balance, sd, case["spec"], occ)
                        runs = []
                        for rep in range(2 if shuffle else 1):
                            rec.trans()
                            with warnings.catch_warnings(record=True) as wl:
                                warnings.simplefilter("always")
                                try:
                                    if case.get("route") == "attr":
                                        cv = vd.BlockKFold(n_splits=max(2, (n_splits + 1) % 5), shuffle=not shuffle, random_state=99, balance=not balance, spacing=7.0)
                                        cv.n_splits, cv.shuffle, cv.random_state, cv.balance = n_splits, shuffle, sd, balance
                                        cv.spacing, cv.shape = spec.get("spacing"), spec.get("shape")
                                    else:
                                        cv = vd.BlockKFold(n_splits=n_splits, shuffle=shuffle, random_state=sd, balance=balance, **spec)
                                    rec.check(cv.get_n_splits() == n_splits, "get_n_splits")
                                    out = [(tr.tolist(), te.tolist()) for tr, te in cv.split(X)]
                                except Exception as exc:  # noqa: BLE001
                                    out = exc
                            runs.append((out, [str(w.message) for w in wl if issubclass(w.category, UserWarning)]))
                        out, wmsgs = runs[0]
                        if len(runs) == 2:
                            same = (isinstance(out, Exception) and isinstance(runs[1][0], Exception)) or out == runs[1][0]
                            rec.check(same, what + ": not reproducible for a fixed random_state")
                        if n_splits > nocc:
                            rec.check(isinstance(out, ValueError), what + ": more splits than occupied blocks must raise ValueError, got %r" % (type(out),))
                            rec.cls("kfold:refusal")
                            continue
                        if isinstance(out, Exception):
                            rec.check(False, what + ": raised %r" % (out,))
                            continue
                        fellback = any("Could not balance" in m for m in wmsgs)
                        rec.check(len(out) == n_splits, what + ": %d folds yielded" % len(out))
                        seen = set()
                        sizes, bcounts = [], []
                        for k, (tr, te) in enumerate(out):
                            ss, bs = _check_split(rec, tr, te, labels, npts, what + " fold %d" % k)
                            rec.check(len(ss) > 0, what + ": test fold %d is empty" % k)
                            rec.check(not (seen & ss), what + ": test folds overlap")
                            seen |= ss
                            sizes.append(len(ss))
                            bcounts.append(len(bs))
                        rec.check(seen == set(range(npts)), what + ": test folds do not cover every sample exactly once")
                        if balance and fellback:
                            # the fall-back is only for layouts that cannot be balanced by the documented rule (cumulative block
                            # populations cut where they cross multiples of total // parts, in the order of the blocks): ascending
                            # block order without shuffling; with shuffling the order is the implementation's, so the fall-back is
                            # held against the rule only when the rule succeeds for EVERY order (seed C11-7)
                            pops = [pop[b] for b in sorted(pop)]
                            if not shuffle:
                                rec.check(_ref_partition(pops, n_splits) is None, what + ": fell back to equal block counts although the documented "
                                          "balancing rule succeeds (split points %s for block populations %s)" % (_ref_partition(pops, n_splits), pops))
                            elif len(pops) <= 6:
                                rec.check(any(_ref_partition(list(pm), n_splits) is None for pm in set(itertools.permutations(pops))),
                                          what + ": fell back although the balancing rule succeeds for every order of the block populations %s" % (pops,))
                        if balance and not fellback:
                            bmax = max(pop.values())
                            dev = max(abs(s - npts / n_splits) for s in sizes)
                            rec.check(dev < bmax + n_splits, what + ": fold sizes %s not balanced to within one block (+parts) of %g" % (sizes, npts / n_splits))
                            rec.cls("kfold:balanced")
                        else:
                            rec.check(max(bcounts) - min(bcounts) <= 1, what + ": block counts per fold %s differ by more than one" % (bcounts,))
                            rec.cls("kfold:fallback" if fellback else "kfold:equal-blocks")
        return
    # ---------------- BlockShuffleSplit
    drawn = []

    class Recording(SkShuffle):
        def split(self, X, y=None, groups=None):  # noqa: N803
            for tr, te in super().split(X, y, groups):
                drawn.append((np.array(tr), np.array(te)))
                yield tr, te

    orig = ms.ShuffleSplit
    ms.ShuffleSplit = Recording
    try:
        # (None, ...) : test_size=None passed EXPLICITLY - the test blocks are then the complement of the training blocks (round 8, seed C11-16)
        for test_size, train_size in [(t_, r_) for t_ in (0.1, 0.25, 0.5, 0.75, 2) for r_ in (None, 0.5)] + [(None, 0.5), (None, 0.75), (None, 2), (None, None)]:
            if True:
                # reference number of blocks per side from scikit-learn's public behaviour
                try:
                    rtr, rte = next(SkShuffle(n_splits=1, test_size=test_size, train_size=train_size, random_state=0).split(np.arange(nocc)))
                    want = (len(rtr), len(rte))
                except ValueError:
                    want = None
                for balancing in (1, 2, 3):
                    for n_splits in (1, 2, 3):
                        for sd in (0, 1, 2, 3):
                            what = "BlockShuffleSplit(test=%r, train=%r, balancing=%d, n_splits=%d, seed=%d) occ=%s" % (
                                test_size, train_size, balancing, n_splits, sd, occ)
                            outs = []
                            for rep in range(2):
                                del drawn[:]
                                rec.trans()
                                try:
                                    cv = vd.BlockShuffleSplit(n_splits=n_splits, test_size=test_size, train_size=train_size,
                                                              random_state=sd, balancing=balancing, **spec)
                                    out = [(tr.tolist(), te.tolist()) for tr, te in cv.split(X)]
                                except Exception as exc:  # noqa: BLE001
                                    out = exc
                                outs.append((out, list(drawn)))
                            out, cand = outs[0]
                            if want is None:
                                rec.check(isinstance(out, ValueError), what + ": sizes that scikit-learn rejects must raise, got %r" % (type(out),))
                                rec.cls("shuffle:refusal")
                                continue
                            if isinstance(out, Exception):
                                rec.check(False, what + ": raised %r" % (out,))
                                continue
                            rec.check(out == outs[1][0], what + ": not reproducible for a fixed random_state")
                            rec.check(len(out) == n_splits, what + ": %d splits yielded" % len(out))
                            observed = len(cand) >= n_splits * balancing
                            for k, (tr, te) in enumerate(out):
                                ss, bs = _check_split(rec, tr, te, labels, npts, what + " split %d" % k)
                                # the training side is the complement of the test side (the split is a partition), so only the
                                # number of TEST blocks is prescribed by test_size/train_size
                                rec.check(len(bs) == want[1],
                                          what + ": %d test blocks, test_size/train_size prescribe %d" % (len(bs), want[1]))
                                if observed:
                                    group = cand[k * balancing:(k + 1) * balancing]
                                    bal = []
                                    for ctr, cte in group:
                                        tb = [blocks[i] for i in cte]
                                        rb = [blocks[i] for i in ctr]
                                        ntest = sum(pop[b] for b in tb)
                                        ntrain = sum(pop[b] for b in rb)
                                        bal.append((abs(ntrain / ntest - len(rb) / len(tb)), frozenset(tb)))
                                    best = min(b for b, _ in bal)
                                    okset = {s for b, s in bal if b <= best + 1e-12}
                                    rec.check(frozenset(bs) in okset, what + ": split %d tests blocks %s, not the best point-balanced candidate %s"
                                              % (k, sorted(bs), [(round(b, 4), sorted(s)) for b, s in bal]))
                            if not observed:
                                rec.skip("candidate shuffles not observable (ShuffleSplit symbol unused)")
                            rec.cls("shuffle:ok")
    finally:
        ms.ShuffleSplit = orig
