"""
C13  Regions, bounds and point-in-region tests are tight and consistent.
"""
import itertools
import math

import numpy as np

from mc.util import call, raised, pick_frames

ID = "C13"
LEVEL = "model_checking"
RULE = (
    "Exhaustive products over small lattices: get_region on every coordinate vector pair of length 1..3 over a 5-value lattice "
    "(0-d/1-d/2-d, with an extra coordinate); inside() on a 196-point lattice holding every bound and one step in/out of it x 100 "
    "regions (incl. degenerate) x array forms (1-D, 2-D C/Fortran, strided view, int dtype, extra coordinate, 0-d); pad_region "
    "(regions x scalar / (north, east) / negative / numpy / list pads, undone by the opposite pad); scatter_points (regions x sizes "
    "0..5 x seeds 0..5 x extra_coords); grid_coordinates nodes inside the region; project_region under affine, flipping, monotone "
    "and non-monotone maps; maxabs over tuples of 1..3 vectors with NaNs; every invalid region through every public entry point. "
    "Non-trivial: not an expected-refusal case; distinct = distinct canonical case."
    " Added axes: NaN coordinates, ndarray regions, every sub-lattice as its own inside() call, far / tiny / float32 forms, non-dyadic grids with many nodes, elongated regions (1e4 ... 1e6 : 1) and far regions for project_region, almost-meshgrid 2-D arrays for get_region, maxabs on 2-D / 3-D arrays, maxabs on signed / unsigned integer arrays holding the extreme values of their type."
)
ASSUMPTIONS = ["lattices are dyadic so the closed-box predicate is decidable exactly",
               "maxabs(nan=True) on input without any finite value is not compared (result undefined)"]

L5 = [-3.0, -0.5, 0.0, 2.0, 7.25]
RB = [-2.0, 0.0, 1.5, 3.0]
PV = [-3.0, -2.25, -2.0, -1.75, -0.25, 0.0, 0.25, 1.25, 1.5, 1.75, 2.75, 3.0, 3.25, 4.0]
FORMS = ["1d", "2d", "2dF", "view", "int", "int_e", "series", "extra", "0d", "nan", "far", "tiny", "f32"]
SREG = [[0.0, 10.0, -2.0, -1.0], [-4.0, -4.0, 1.0, 3.0], [1024.0, 1024.5, -8.0, 8.0], [0.0, 0.0, 0.0, 0.0]]
MV = [-3.0, -1.0, 0.0, 2.0, float("nan")]


def bounds(tier, seed):
    return dict(get_region_lattice=L5, inside_region_bounds=RB, inside_point_values=PV, inside_forms=FORMS,
                scatter_regions=SREG, maxabs_values=["-3", "-1", "0", "2", "NaN"])


def _vecs(vals, maxlen):
    for k in range(1, maxlen + 1):
        yield from itertools.product(vals, repeat=k)


def cases(tier, seed):
    for k in (1, 2, 3):
        for e in itertools.product(L5, repeat=k):
            for n in itertools.product(L5, repeat=k):
                yield dict(kind="get_region", e=list(e), n=list(n), form="1d")
                if k == 1:
                    yield dict(kind="get_region", e=list(e), n=list(n), form="0d")
                if k == 2:
                    yield dict(kind="get_region", e=list(e), n=list(n), form="2d")
                if k == 3 and e[0] <= e[1]:
                    yield dict(kind="get_region", e=list(e), n=list(n), form="extra")
    regions = [[w, e, s, n] for w in RB for e in RB if w <= e for s in RB for n in RB if s <= n]
    for reg in regions:
        for form in FORMS:
            yield dict(kind="inside", region=reg, form=form)
        # every sub-lattice PV[a:b] x PV[c:d] as its own call: point sets that lie entirely inside, entirely outside, or whose
        # extreme point sits exactly on a bound (seed C13-7: bounding-box short-cuts)
        yield dict(kind="inside_sub", region=reg)
    pads = [0.5, 2, [3, 2], [0.25, 1.5], -0.5, [-0.25, 0.5], "np", "list", 0]
    for reg in regions[::3]:
        for pad in pads:
            yield dict(kind="pad", region=reg, pad=pad)
    for reg in SREG:
        for size in range(0, 6):
            for sd in range(0, 6):
                for extra in (None, 12.0, [12.0, 1986.0], 0.0):
                    yield dict(kind="scatter", region=reg, size=size, seed=sd, extra=extra)
    for reg in regions[::2] + SREG[:3]:
        for a in range(1, 5):
            for b in range(1, 5):
                for pixel in (False, True):
                    yield dict(kind="grid_inside", region=reg, shape=[a, b], pixel=pixel)
        for sp in (0.25, 0.5, 1.0, 1.75, [0.5, 1.25], 9.0):
            for pixel in (False, True):
                yield dict(kind="grid_inside", region=reg, spacing=sp, pixel=pixel)
    # non-dyadic regions with many nodes (added after seed C13-1: a node one ulp past the east bound)
    for reg in ([0.0, 0.7, -3.3, 0.0], [0.0, 5.0, 0.0, 10.0], [1.1, 7.3, -0.1, 0.2]):
        for a in range(2, 161):
            for pixel in (False, True):
                yield dict(kind="grid_inside", region=reg, shape=[a, (a * 7) % 159 + 2], pixel=pixel)
                yield dict(kind="grid_inside", region=reg, spacing=[(reg[3] - reg[2]) / a, (reg[1] - reg[0]) / ((a * 7) % 159 + 2)], pixel=pixel)
    for reg in [[0.0, 4.0, 0.0, 2.0], [-2.0, 2.0, -1.0, 1.0], [-8.0, 8.0, -4.0, 4.0], [1.0, 3.0, -5.0, -1.0], [0.0, 0.0, 1.0, 2.0]]:
        for proj in ("affine", "flip", "rot", "exp", "square", "negsq", "cube_shift"):
            yield dict(kind="project_region", region=reg, proj=proj)
    # very elongated regions (1e4 ... 1e6 to 1), both ways, and regions far from the origin (seed C13-10: a sampling grid sized by the
    # aspect ratio)
    for reg in [[0.0, 1.0e5, 0.0, 1.0], [0.0, 1.0, 0.0, 2.0e5], [-8.0, 8.0, -4.0e6, 4.0e6], [5.0e5, 5.0e5 + 4.0, 7.5e6, 7.5e6 + 2.0e4], [-2.0e6, 2.0e6, 1.0, 3.0]]:
        for proj in ("affine", "flip", "rot", "identity"):
            yield dict(kind="project_region", region=reg, proj=proj)
    # get_region of 2-D arrays that are ALMOST meshgrids (a survey grid rotated by a fraction of a degree, a sheared grid), near the
    # origin and at projected-coordinate magnitudes (seed C13-9: bounds taken from the first row / column only)
    for shape in ([3, 4], [6, 11], [2, 2]):
        for off in ([0.0, 0.0], [5.0e5, 7.5e6], [-3.2e6, 1.0e3]):
            for angle in (0.0, 0.2, 2.0, -0.05):
                for shear in (0.0, 1e-3):
                    yield dict(kind="get_region_grid", shape=shape, off=off, angle=angle, shear=shear)
    singles = [list(v) for v in _vecs(MV, 3)]
    for v in singles:
        for nan in (True, False):
            yield dict(kind="maxabs", arrays=[v], nan=nan)
    # the same values arranged as 2-D / 3-D arrays, 0-d arrays, lists and mixtures (seed C13-12: a matrix norm instead of the largest
    # absolute value)
    four = [list(v) for v in itertools.product(MV, repeat=4) if sum(1 for x in v if x != x) <= 1][::3]
    for v in four:
        for nan in (True, False):
            for shp in ([2, 2], [4, 1], [1, 4], [1, 2, 2]):
                yield dict(kind="maxabs", arrays=[v], nan=nan, shape=shp)
            yield dict(kind="maxabs", arrays=[v[:2], v[2:]], nan=nan, shape=[2, 1])
    # integer dtypes incl. small and unsigned ones, with the extreme values of each type (round 8, seed C13-16: -min of an unsigned array;
    # defect D11: the absolute value of the most negative value of a signed type)
    for dt, vals in (("uint8", [3, 120, 200, 0, 255]), ("uint16", [1, 65535, 7]), ("int8", [-128, 5, 127, -1]), ("int16", [-32768, 100, 32767, -3]),
                     ("int32", [-2147483648, 7, 2147483647]), ("int64", [-4, 9, 2 ** 40, -(2 ** 41)])):
        for k_ in (1, 2, 3, len(vals)):
            for sub in itertools.combinations(vals, k_):
                for nan in (True, False):
                    yield dict(kind="maxabs", arrays=[list(sub)], nan=nan, dtype=dt)
                    yield dict(kind="maxabs", arrays=[list(sub), [vals[0], vals[-1]]], nan=nan, dtype=dt)
                    yield dict(kind="maxabs", arrays=[list(sub), [1.5, -2.5]], nan=nan, dtype=dt, second_float=True)
    small = [list(v) for v in _vecs(MV, 2)]
    second = singles if tier == "thorough" else small
    for a in singles:
        for b in second:
            for nan in (True, False):
                yield dict(kind="maxabs", arrays=[a, b], nan=nan)
    trip = small if tier == "thorough" else [list(v) for v in _vecs(MV, 1)] + [[2.0, -3.0], [float("nan"), -1.0]]
    for a in small:
        for b in trip:
            for c in trip:
                for nan in (True, False):
                    yield dict(kind="maxabs", arrays=[a, b, c], nan=nan)
    for bad in ("w_gt_e", "s_gt_n", "len3", "len5", "len2", "w_gt_e_tiny", "s_gt_n_tiny"):
        for entry in ("grid_coordinates", "scatter_points", "inside", "block_split", "BlockReduce", "CheckerBoard.grid",
                      "rolling_window", "project_region", "check_region"):
            yield dict(kind="invalid", bad=bad, entry=entry)


def _proj(name):
    if name == "affine":
        return lambda e, n: (2 * e + 1, 4 * n - 3)
    if name == "identity":
        return lambda e, n: (e + 0.0, n + 0.0)
    if name == "flip":
        return lambda e, n: (-e, 0.5 * n)
    if name == "rot":
        return lambda e, n: (e + n, e - n)
    if name == "exp":
        return lambda e, n: (np.exp2(e), n ** 3)
    if name == "square":
        return lambda e, n: (e ** 2, n)
    if name == "negsq":
        return lambda e, n: (e + 0 * n, -(n ** 2))
    if name == "cube_shift":
        return lambda e, n: ((e - 1) ** 2, -(n ** 2))
    raise ValueError(name)


def run(case, rec):
    import verde as vd

    kind = case["kind"]
    if kind == "get_region":
        e, n = np.array(case["e"]), np.array(case["n"])
        form = case["form"]
        if form == "0d":
            e, n = np.array(e[0]), np.array(n[0])
        elif form == "2d":
            e, n = e.reshape(1, 2), n.reshape(1, 2)
        coords = (e, n) if form != "extra" else (e, n, np.array([100.0, -100.0, 50.0]))
        got = call(rec, vd.get_region, coords)
        if raised(got):
            return rec.check(False, "get_region raised %r" % (got,))
        want = (min(case["e"]), max(case["e"]), min(case["n"]), max(case["n"]))
        rec.check(len(got) == 4 and tuple(float(v) for v in got) == want, "get_region %r != tight box %r" % (got, want))
        ins = call(rec, vd.inside, coords, got)
        if raised(ins):
            return rec.check(False, "inside(points, get_region(points)) raised %r" % (ins,))
        rec.check(np.asarray(ins).shape == e.shape and bool(np.all(ins)), "a point is not inside its own bounding region: %r" % (ins,))
        rec.trivial = len(case["e"]) == 1
        rec.cls("get_region/" + form)
        return
    if kind == "inside":
        w, e, s, n = case["region"]
        form = case["form"]
        pts = [(x, y) for y in PV for x in PV]
        ea = np.array([p[0] for p in pts])
        na = np.array([p[1] for p in pts])
        want = np.array([(w <= x <= e) and (s <= y <= n) for x, y in pts])
        if form == "0d":
            bad = None
            for (x, y), wv in zip(pts, want):
                got = call(rec, vd.inside, (np.array(x), np.array(y)), case["region"])
                if raised(got) or np.asarray(got).shape != () or bool(got) != bool(wv):
                    bad = (x, y, got, bool(wv))
                    break
            rec.check(bad is None, "inside 0-d: %r" % (bad,))
            rec.cls("inside/0d")
            return
        if form in ("far", "tiny", "f32"):
            # the same lattice and region at projected-coordinate magnitudes (+7 460 000: exact), scaled by 2^-30, or as float32 arrays
            # (the lattice is exactly representable in float32)
            if form == "far":
                ea, na = ea + 7460000.0, na - 3500000.0
                reg_ = [w + 7460000.0, e + 7460000.0, s - 3500000.0, n - 3500000.0]
            elif form == "tiny":
                ea, na = ea * 2.0 ** -30, na * 2.0 ** -30
                reg_ = [v * 2.0 ** -30 for v in case["region"]]
            else:
                ea, na = ea.astype(np.float32), na.astype(np.float32)
                reg_ = case["region"]
            got = call(rec, vd.inside, (ea, na), reg_)
            ok_ = not raised(got) and np.asarray(got).dtype == bool and np.array_equal(np.asarray(got), want)
            rec.check(ok_, "inside (%s form) differs from the closed-box predicate: region %r" % (form, reg_))
            rec.cls("inside/%s" % form)
            return
        if form == "int":
            # integer-valued subset only
            keep = [i for i, p in enumerate(pts) if p[0] == int(p[0]) and p[1] == int(p[1])]
            ea = ea[keep].astype(np.int64)
            na = na[keep].astype(np.int64)
            want = want[keep]
        if form == "nan":
            # NaN coordinates satisfy no inequality: such points are outside every region (seed C13-r3_2)
            nanpts = [(float("nan"), y) for y in PV] + [(x, float("nan")) for x in PV] + [(float("nan"), float("nan"))]
            ea = np.array([p[0] for p in nanpts]); na = np.array([p[1] for p in nanpts])
            want = np.zeros(len(nanpts), dtype=bool)
        if form == "int_e":
            keep = [i for i, p in enumerate(pts) if p[0] == int(p[0])]
            ea, na, want = ea[keep].astype(np.int64), na[keep], want[keep]
        if form == "series":
            import pandas as pd
            ea, na = pd.Series(ea, index=np.arange(ea.size)[::-1]), pd.Series(na, index=np.arange(na.size)[::-1])
        if form in ("2d", "2dF", "view", "extra"):
            ea, na, want = ea.reshape(14, 14), na.reshape(14, 14), want.reshape(14, 14)
        if form == "2dF":
            ea, na = np.asfortranarray(ea), np.asfortranarray(na)
        if form == "view":
            big_e = np.zeros((28, 28)); big_n = np.zeros((28, 28))
            big_e[::2, 1::2] = ea; big_n[::2, 1::2] = na
            ea, na = big_e[::2, 1::2], big_n[::2, 1::2]
        coords = (ea, na) if form != "extra" else (ea, na, np.full(ea.shape, 1e9))
        tb = lambda a: np.asarray(a).tobytes()
        before = (tb(ea), tb(na))
        got = call(rec, vd.inside, coords, case["region"])
        if raised(got):
            return rec.check(False, "inside raised %r" % (got,))
        got = np.asarray(got)
        rec.check(got.dtype == bool, "inside must return booleans")
        rec.check(got.shape == np.asarray(ea).shape, "inside: output shape %s != input shape %s" % (got.shape, np.asarray(ea).shape))
        if got.shape == want.shape:
            diff = np.argwhere(got != want)
            rec.check(diff.size == 0, "inside differs from the closed-box predicate at %s: points %s region %r"
                      % (diff[:3].tolist(), [(float(np.asarray(ea)[tuple(i)]), float(np.asarray(na)[tuple(i)])) for i in diff[:3]], case["region"]))
        rec.check((tb(ea), tb(na)) == before, "inside modified its input")
        rec.cls("inside/%s/%s" % (form, "degenerate" if w == e or s == n else "box"))
        rec.count("points_tested", int(want.size))
        return
    if kind == "inside_sub":
        w, e, s, n = case["region"]
        pv = np.array(PV)
        bad = None
        ncalls = 0
        nmixed = 0
        for a in range(len(PV)):
            for b in range(a + 1, len(PV) + 1):
                for c in range(len(PV)):
                    for d in range(c + 1, len(PV) + 1):
                        if (b - a) * (d - c) > 12 and ((a + b + c + d) % 3):
                            continue      # all small sets, a third of the large ones
                        ea, na = np.meshgrid(pv[a:b], pv[c:d])
                        want = (ea >= w) & (ea <= e) & (na >= s) & (na <= n)
                        got = vd.inside((ea, na), case["region"])
                        ncalls += 1
                        nmixed += int(want.any() and not want.all())
                        if bad is None and (np.asarray(got).shape != want.shape or not np.array_equal(np.asarray(got), want)):
                            bad = (pv[a:b].tolist(), pv[c:d].tolist(), np.asarray(got).tolist(), want.tolist())
        rec.check(bad is None, "inside differs from the closed-box predicate for eastings %s x northings %s: %s, expected %s (region %r)"
                  % ((bad if bad else (0, 0, 0, 0)) + (case["region"],)))
        rec.trans(ncalls)
        rec.count("sublattice_calls", ncalls)
        rec.count("sublattices_partly_inside", nmixed)
        rec.cls("inside/sublattices")
        return
    if kind == "pad":
        reg = case["region"]
        pad = case["pad"]
        if pad == "np":
            pad_v, pn, pe = np.float64(0.75), 0.75, 0.75
        elif pad == "list":
            pad_v, pn, pe = [1.25, 0.5], 1.25, 0.5
        elif isinstance(pad, list):
            pad_v, pn, pe = tuple(pad), pad[0], pad[1]
        else:
            pad_v, pn, pe = pad, pad, pad
        got = call(rec, vd.pad_region, reg, pad_v)
        if raised(got):
            return rec.check(False, "pad_region raised %r" % (got,))
        # the region handed over as a float64 / int64 ndarray: same result, and the caller's array is untouched (seed C13-r2_2)
        for dt in (np.float64, np.int64):
            if dt is np.int64 and any(v != int(v) for v in reg):
                continue
            arr = np.array(reg, dtype=dt)
            keep = arr.copy()
            g2 = call(rec, vd.pad_region, arr, pad_v)
            rec.check(not raised(g2) and tuple(float(v) for v in g2) == tuple(float(v) for v in got), "pad_region(ndarray region) differs from the list form: %r" % (g2,))
            rec.check(np.array_equal(arr, keep), "pad_region modified the region array it was given")
        want = (reg[0] - pe, reg[1] + pe, reg[2] - pn, reg[3] + pn)
        rec.check(tuple(float(v) for v in got) == want, "pad_region(%r, %r) = %r, expected %r (pad is (north, east))" % (reg, pad_v, got, want))
        neg = tuple(-v for v in pad_v) if isinstance(pad_v, (tuple, list)) else -pad_v
        back = call(rec, vd.pad_region, got, neg)
        rec.check(not raised(back) and tuple(float(v) for v in back) == tuple(reg), "opposite pad does not undo: %r" % (back,))
        rec.cls("pad/" + ("pair" if isinstance(pad_v, (tuple, list)) else "scalar"))
        return
    if kind == "scatter":
        reg, size, sd, extra = case["region"], case["size"], case["seed"], case["extra"]
        kw = {} if extra is None else dict(extra_coords=extra)
        a = call(rec, vd.scatter_points, reg, size, random_state=sd, **kw)
        b = call(rec, vd.scatter_points, reg, size, random_state=sd, **kw)
        if raised(a) or raised(b):
            return rec.check(False, "scatter_points raised %r" % (a,))
        nexp = 2 + (0 if extra is None else (len(extra) if isinstance(extra, list) else 1))
        rec.check(len(a) == nexp and all(np.asarray(x).shape == (size,) for x in a), "scatter_points: wrong number/size of arrays")
        rec.check(all(np.array_equal(x, y) for x, y in zip(a, b)), "scatter_points not reproducible for a fixed seed")
        if size:
            ins = call(rec, vd.inside, a, reg)
            rec.check(not raised(ins) and bool(np.all(ins)), "scatter point outside the requested region %r" % (reg,))
            c = call(rec, vd.scatter_points, reg, size, random_state=sd + 100, **kw)
            nondeg = reg[0] < reg[1] or reg[2] < reg[3]
            if nondeg and not raised(c):
                rec.cls("scatter/seed-sensitive" if not np.array_equal(a[0], c[0]) or not np.array_equal(a[1], c[1]) else "scatter/seed-insensitive")
            # generator passed as RandomState instance behaves like the int seed
            d = call(rec, vd.scatter_points, reg, size, random_state=np.random.RandomState(sd), **kw)
            rec.check(not raised(d) and all(np.array_equal(x, y) for x, y in zip(a, d)), "RandomState(seed) differs from the int seed")
        if extra is not None:
            vals = extra if isinstance(extra, list) else [extra]
            for arr, v in zip(a[2:], vals):
                rec.check(bool(np.all(np.asarray(arr) == v)), "extra coordinate not constant %r" % v)
        rec.trivial = size == 0
        rec.cls("scatter/size=%d" % size)
        return
    if kind == "grid_inside":
        reg = case["region"]
        kw = dict(pixel_register=case["pixel"])
        if "shape" in case:
            kw["shape"] = tuple(case["shape"])
        else:
            sp = case["spacing"]
            kw["spacing"] = tuple(sp) if isinstance(sp, list) else sp
            kw["adjust"] = "spacing"
        got = call(rec, vd.grid_coordinates, reg, **kw)
        if raised(got):
            return rec.check(False, "grid_coordinates raised %r" % (got,))
        ins = call(rec, vd.inside, got, reg)
        rec.check(not raised(ins) and np.asarray(ins).shape == np.asarray(got[0]).shape and bool(np.all(ins)),
                  "grid node outside the requested region %r: %r" % (reg, kw))
        rec.cls("grid_inside/" + ("shape" if "shape" in case else "spacing"))
        return
    if kind == "get_region_grid":
        nn_, ne_ = case["shape"]
        x, y = np.meshgrid(np.arange(ne_, dtype=float) * 50.0, np.arange(nn_, dtype=float) * 30.0)
        t = math.radians(case["angle"])
        ee = case["off"][0] + x * math.cos(t) - y * math.sin(t) + case["shear"] * y
        nn = case["off"][1] + x * math.sin(t) + y * math.cos(t)
        for form, (a, b) in {"C": (ee, nn), "F": (np.asfortranarray(ee), np.asfortranarray(nn)), "extra": (ee, nn)}.items():
            got = call(rec, vd.get_region, (a, b) if form != "extra" else (a, b, np.zeros_like(a)))
            if raised(got):
                rec.check(False, "get_region raised %r" % (got,))
                continue
            want = (float(ee.min()), float(ee.max()), float(nn.min()), float(nn.max()))
            rec.check(tuple(float(v) for v in got) == want, "get_region of a %d x %d grid rotated by %r degrees at %r is %r, the bounding box is %r"
                      % (nn_, ne_, case["angle"], case["off"], tuple(float(v) for v in got), want))
            ins = call(rec, vd.inside, (a, b), got)
            rec.check(not raised(ins) and bool(np.all(ins)), "points of the array lie outside their own get_region")
        rec.cls("get_region/grid%s" % ("/exact-meshgrid" if case["angle"] == 0 and case["shear"] == 0 else ""))
        return
    if kind == "project_region":
        reg = case["region"]
        proj = _proj(case["proj"])
        got = call(rec, vd.project_region, reg, proj)
        if raised(got):
            return rec.check(False, "project_region raised %r" % (got,))
        # reference: dense exact sampling of the boundary and interior on a 401 x 401 dyadic-friendly lattice
        es = np.linspace(reg[0], reg[1], 401)
        ns = np.linspace(reg[2], reg[3], 401)
        ee, nn = np.meshgrid(es, ns)
        pe, pn = proj(ee.ravel(), nn.ravel())
        want = (pe.min(), pe.max(), pn.min(), pn.max())
        got = tuple(float(v) for v in got)
        scale = max(abs(v) for v in want) or 1.0
        # for these maps the extrema sit on corners / axis midpoints, which both samplings contain exactly
        tol = 4 * math.ulp(scale)
        if case["proj"] == "cube_shift":
            # the extremum of (e-1)^2 is generally not a node of any finite sampling: the result can only be required to lie
            # inside the true box and to contain the projected corners (anything sharper would demand more than is computable
            # for an arbitrary callable)
            ce, cn = proj(np.array([reg[0], reg[1], reg[0], reg[1]]), np.array([reg[2], reg[2], reg[3], reg[3]]))
            ok = (got[0] >= want[0] - tol and got[1] <= want[1] + tol and got[2] >= want[2] - tol and got[3] <= want[3] + tol
                  and got[0] <= ce.min() + tol and got[1] >= ce.max() - tol and got[2] <= cn.min() + tol and got[3] >= cn.max() - tol)
        else:
            ok = all(abs(g - w_) <= tol for g, w_ in zip(got, want))
        rec.check(ok, "project_region(%r, %s) = %r, bounding box of the projected region is %r" % (reg, case["proj"], got, want))
        rec.check(got[0] <= got[1] and got[2] <= got[3], "projected region is not ordered W<=E, S<=N")
        rec.cls("project_region/" + case["proj"])
        return
    if kind == "maxabs":
        arrays = [np.array(a) for a in case["arrays"]]
        if case.get("dtype"):
            arrays = [np.array(a, dtype=(float if (case.get("second_float") and i_ == 1) else case["dtype"])) for i_, a in enumerate(case["arrays"])]
        if case.get("shape"):
            arrays = [a.reshape(case["shape"]) for a in arrays]
        nan = case["nan"]
        got = call(rec, vd.maxabs, *arrays, nan=nan)
        allv = [v for a in case["arrays"] for v in a]
        finite = [abs(v) for v in allv if v == v]
        hasnan = any(v != v for v in allv)
        per_array_allnan = any(all(v != v for v in a) for a in case["arrays"])
        if raised(got):
            return rec.check(False, "maxabs raised %r" % (got,))
        got = float(got)
        if nan:
            if not finite or per_array_allnan:
                rec.skip("maxabs(nan=True) with an all-NaN array: undefined")
                if finite and got == got:
                    rec.check(got == max(finite), "maxabs ignoring NaNs: %r != %r" % (got, max(finite)))
            else:
                rec.check(got == max(finite), "maxabs(nan=True) %r != %r for %r" % (got, max(finite), case["arrays"]))
        else:
            if hasnan:
                rec.check(got != got, "maxabs(nan=False) must propagate NaN, got %r" % got)
            else:
                rec.check(got == max(finite), "maxabs %r != %r for %r" % (got, max(finite), case["arrays"]))
        rec.cls("maxabs/%d arrays/nan=%s/%s" % (len(arrays), nan, "hasnan" if hasnan else "finite"))
        return
    if kind == "invalid":
        rec.trivial = True
        bad = dict(w_gt_e=[4.0, 0.0, 0.0, 3.0], s_gt_n=[0.0, 4.0, 3.0, 0.0], len3=[0.0, 4.0, 0.0], len5=[0.0, 4.0, 0.0, 3.0, 1.0],
                   len2=[0.0, 4.0], w_gt_e_tiny=[1.0 + 2.0 ** -40, 1.0, 0.0, 3.0], s_gt_n_tiny=[0.0, 4.0, 2.0, 2.0 - 2.0 ** -40])[case["bad"]]
        pts = (np.array([0.5, 1.0, 3.0]), np.array([0.5, 1.0, 2.0]))
        entry = case["entry"]
        fns = {
            "grid_coordinates": lambda: vd.grid_coordinates(bad, shape=(2, 2)),
            "scatter_points": lambda: vd.scatter_points(bad, 3, random_state=0),
            "inside": lambda: vd.inside(pts, bad),
            "block_split": lambda: vd.block_split(pts, spacing=1.0, region=bad),
            "BlockReduce": lambda: vd.BlockReduce(np.mean, spacing=1.0, region=bad).filter(pts, np.array([1.0, 2.0, 3.0])),
            "CheckerBoard.grid": lambda: vd.synthetic.CheckerBoard(region=bad).grid(shape=(3, 3)),
            "rolling_window": lambda: vd.rolling_window(pts, size=0.5, spacing=0.5, region=bad),
            "project_region": lambda: vd.project_region(bad, lambda e, n: (e, n)),
            "check_region": lambda: vd.coordinates.check_region(bad),
        }
        got = call(rec, fns[entry])
        rec.check(raised(got), "invalid region %r accepted by %s (returned %r)" % (bad, entry, type(got)))
        rec.cls("refusal:%s:%s" % (case["bad"], entry))
        return
    raise ValueError(kind)
