"""
C01  Exact interpolators reproduce the data at the data points; Trend reproduces polynomials everywhere.
"""
import itertools
import math
from fractions import Fraction as F

import numpy as np

from mc.estimators import build, ncomp, build_via, ROUTES
from mc.util import call, raised, pick_frames
from models import numref as R

ID = "C01"
LEVEL = "model_checking"
RULE = (
    "Exhaustive product: point set in all k-subsets of the 3x3 lattice (k = 3..5; thorough 2..6 plus k <= 5 subsets of the 4x3 lattice) x "
    "frame (scale 1e-2, 1, 1e3, 1e6; offset 0 or 1e3 x extent; jitter none / general position; array shape 1-D / 2-D C / 2-D Fortran-ordered; first fit or refit of an instance that saw a smaller point set before) x every "
    "exact-interpolator configuration (Spline with and without mindist, VectorSpline2D over Poisson and mindist values, KNeighbors(1), "
    "Linear/Cubic with both rescale settings, Chains and Vectors assembled from them) x data = every unit basis vector (complete for "
    "gridders linear in the data) + a ramp + an alternating large-dynamic-range vector; a conditioning ladder (5-point cross plus a sixth "
    "point at separation 1e-1..1e-6) walking cond from 1e2 to 1e11; Trend degrees 0..4 on every monomial of degree <= N over all "
    "unisolvent lattice subsets with ncoef and ncoef+1 points (tensor lattices minus one point for N = 3, 4), evaluated on a lattice "
    "twice the data extent. Non-trivial: compared cases (conditioning within the comparable band)."
    " Added axes: Fortran / prefit frames, forces given explicitly in another order, data of magnitude 1e-13 / 1e11, every third data vector as float32, parameter routes (constructor / set_params / attribute / clone) rotating over the cases, a Chain whose steps share one name, conditioning ladder; Trend: eight routes to the degree, structured query sets (profiles along the axes through the origin, single and repeated points)."
)
ASSUMPTIONS = ["tolerance 1024 * cond * eps * max|data| with cond the condition number of the unit-variance-column-scaled Jacobian computed by the "
               "reference SVD; systems with cond > 1e10 or singular are counted as not compared",
               "KNeighbors / Linear / Cubic: 1e-12 * max|data|; Cubic uses SciPy's iterative gradient estimate, exact at the nodes"]

L33 = [(x, y) for y in range(3) for x in range(3)]
L43 = [(x, y) for y in range(3) for x in range(4)]
JIT = {(x, y): (((x * 7 + y * 3) % 5 - 2) / 37.0, ((x * 5 + y * 11) % 7 - 3) / 53.0) for x in range(6) for y in range(6)}
FRAMES = [dict(sc=s, off=o, jit=j, shape=sh, prefit=pf) for s in (1.0, 1e-2, 1e3, 1e6) for o in (0.0, 1e3) for j in (False, True)
          for sh in ("1d", "2d", "2dF") for pf in (False, True)]
FRAMES.sort(key=lambda f: (f["sc"] != 1.0, f["off"] != 0.0, f["jit"], f["prefit"], f["shape"] != "1d"))
# frames every quick run includes besides the base frame: Fortran-ordered 2-D input, and an estimator instance that was
# fitted to a different (smaller) point set before (added after seeds C01-1 / C01-2 slipped past the first version)
ALWAYS = [dict(sc=1.0, off=0.0, jit=False, shape="2dF", prefit=False), dict(sc=1.0, off=0.0, jit=True, shape="1d", prefit=True)]


def _frames(tier, seed):
    fr = pick_frames(FRAMES, tier, seed, nquick=2)
    for f in ALWAYS:
        if f not in fr:
            fr.insert(1, f)
    return fr

CONFIGS = (
    [["Spline", {}], ["Spline", {"mindist_rel": 1e-3}]]
    + [["VectorSpline2D", {"poisson": nu, "mindist_rel": md}] for nu in (-1.0, 0.0, 0.5, 1.0) for md in (1e-3, 0.25)]
    + [["KNeighbors", {"k": 1}]]
    # forces given EXPLICITLY at the data points, in another order (the system is square but not symmetric): seed C01-r2_2
    + [["Spline", {"forces_at_data": "reversed"}], ["VectorSpline2D", {"poisson": 0.5, "mindist_rel": 0.25, "forces_at_data": "rolled"}]]
    + [[c, {"rescale": r}] for c in ("Linear", "Cubic") for r in (False, True)]
    + [["Chain", {"steps": [["Trend", {"degree": 1}], ["Spline", {}]]}],
       ["Chain", {"steps": [["Trend", {"degree": 0}], ["KNeighbors", {"k": 1}]]}],
       ["Chain", {"steps": [["Trend", {"degree": 1}], ["Linear", {}]]}],
       ["Chain", {"steps": [["Trend", {"degree": 1}], ["Spline", {}]], "names": "dup"}],   # all steps share one name (seed C01-10)
       ["Vector", {"components": [["Spline", {}], ["KNeighbors", {"k": 1}]]}],
       ["Vector", {"components": [["Linear", {}], ["Cubic", {}]]}]]
)


def bounds(tier, seed):
    return dict(frames=_frames(tier, seed), n_configs=len(CONFIGS),
                subsets="3x3 k=3..5" if tier == "quick" else "3x3 k=2..6, 4x3 k<=5", ladder_deltas=[10.0 ** -k for k in range(1, 7)],
                trend_degrees=[0, 4])


def _needs_triangulation(spec):
    s = str(spec)
    return "Linear" in s or "Cubic" in s


def _collinear(pts):
    (x0, y0) = pts[0]
    for i in range(1, len(pts)):
        for j in range(i + 1, len(pts)):
            if (pts[i][0] - x0) * (pts[j][1] - y0) - (pts[j][0] - x0) * (pts[i][1] - y0) != 0:
                return False
    return True


def cases(tier, seed):
    frames = _frames(tier, seed)
    sets = [list(s) for k in ((3, 4, 5) if tier == "quick" else (2, 3, 4, 5, 6)) for s in itertools.combinations(range(9), k)]
    for fr in frames:
        for ci, spec in enumerate(CONFIGS):
            for s in sets:
                yield dict(kind="interp", frame=fr, cfg=ci, lat="3x3", pts=s)
    if tier == "thorough":
        for fr in frames[:4]:
            for ci, spec in enumerate(CONFIGS):
                for k in (3, 4, 5):
                    for s in itertools.combinations(range(12), k):
                        if all(L43[i][0] < 3 for i in s):
                            continue  # already in the 3x3 family
                        yield dict(kind="interp", frame=fr, cfg=ci, lat="4x3", pts=list(s))
    for k in range(1, 7):
        for ci, spec in enumerate(CONFIGS):
            if _needs_triangulation(spec) or "KNeighbors" in str(spec):
                continue
            for sc in (1.0, 1e3):
                yield dict(kind="ladder", delta=10.0 ** -k, cfg=ci, sc=sc)
    # Trend
    for deg in range(0, 5):
        ncoef = (deg + 1) * (deg + 2) // 2
        fams = []
        if deg <= 2:
            for m in (ncoef, ncoef + 1):
                fams += [("3x3", list(s)) for s in itertools.combinations(range(9), m)]
                if tier == "thorough" and deg == 2:
                    fams += [("4x3", list(s)) for s in itertools.combinations(range(12), m) if not all(L43[i][0] < 3 for i in s)]
        else:
            for (nx, ny) in ((deg + 1, deg + 1), (deg + 2, deg + 1)):
                tot = nx * ny
                fams.append(("%dx%d" % (nx, ny), list(range(tot))))
                for drop in range(tot):
                    fams.append(("%dx%d" % (nx, ny), [i for i in range(tot) if i != drop]))
        for sc in (1.0, 1e-2, 1e3):
            for off in (0.0, 1e3):
                if tier == "quick" and (sc, off) not in ((1.0, 0.0), (1e3, 0.0), (1.0, 1e3), (1e-2, 0.0)):
                    continue
                for lat, s in fams:
                    yield dict(kind="trend", degree=deg, lat=lat, pts=s, sc=sc, off=off)
        # the route by which the degree reaches the estimator (first and last family of each degree)
        for route in TREND_ROUTES[1:]:
            for lat, s in (fams[:2] + fams[-2:]) if tier == "quick" else fams[:40] + fams[-40:]:
                yield dict(kind="trend", degree=deg, lat=lat, pts=s, sc=1.0, off=0.0, route=route)


TREND_ROUTES = ["ctor", "set_up", "set_down", "attr_up", "attr_down", "clone_set", "refit_up", "refit_down"]


def _trend_by_route(deg, route, e, n):
    """Trend of degree `deg` reached through constructor / set_params / attribute assignment / clone / after a fit with another degree."""
    import verde as vd
    from sklearn.base import clone

    if route == "ctor":
        return vd.Trend(deg)
    other = max(deg - 2, 0) if route.endswith("up") or route == "clone_set" else deg + 2
    if other == deg:
        other = deg + 1
    est = vd.Trend(other)
    if route.startswith("refit"):
        est.fit((e, n), e * 0.5 - n)   # fitted with the other degree first
    if route.startswith("attr"):
        est.degree = deg
    elif route == "clone_set":
        est = clone(est).set_params(degree=deg)
    else:
        est.set_params(degree=deg)
    return est


def _coords(case):
    lat = L33 if case["lat"] == "3x3" else L43
    fr = case["frame"]
    pts = [lat[i] for i in case["pts"]]
    ext = 2.0 * fr["sc"]
    e = np.array([(p[0] + (JIT[p][0] if fr["jit"] else 0.0)) * fr["sc"] for p in pts]) + fr["off"] * ext
    n = np.array([(p[1] + (JIT[p][1] if fr["jit"] else 0.0)) * fr["sc"] for p in pts]) - 0.5 * fr["off"] * ext
    return pts, e, n, ext


def _data_vectors(npts):
    vecs = [np.eye(npts)[i] for i in range(npts)]
    vecs.append(np.arange(1.0, npts + 1))
    vecs.append(np.array([(-1.0) ** i * 10.0 ** ((i * 5) % 7 - 3) for i in range(npts)]))
    # "all finite data values": very small and very large magnitudes (seed C04-r2_2: an absolute is-it-zero test)
    vecs.append(np.arange(1.0, npts + 1) * 1e-13)
    vecs.append(np.arange(1.0, npts + 1)[::-1] * 1e11)
    return vecs


def _reference_cond(spec, e, n, ext):
    """Condition number of the system the exact interpolator has to solve (max over chained/vector parts)."""
    name, kw = spec[0], spec[1]
    if name == "Spline":
        md = kw.get("mindist_rel", 0.0) * ext
        return R.solve(R.spline_design(e, n, e, n, md), np.zeros(e.size))["cond"]
    if name == "VectorSpline2D":
        md = kw.get("mindist_rel", 0.0) * ext
        return R.solve(R.elastic_design(e, n, e, n, md, kw["poisson"]), np.zeros(2 * e.size))["cond"]
    if name == "Chain":
        return max(_reference_cond(s, e, n, ext) for s in kw["steps"] if s[0] != "Trend")
    if name == "Vector":
        return max(_reference_cond(s, e, n, ext) for s in kw["components"])
    return 1.0


def _exactness(rec, spec, e, n, ext, shape, what, prefit=False):
    npts = e.size
    nc = ncomp(spec)
    cond = _reference_cond(spec, e, n, ext)
    if not np.isfinite(cond) or cond > 1e10:
        rec.skip("ill-conditioned or singular system (cond > 1e10): not compared")
        rec.cls("ill-conditioned")
        rec.trivial = True
        return
    rec.cls("cond 1e%d" % int(math.floor(math.log10(max(cond, 1.0)))))
    lsq = cond > 1.0
    if shape == "1d":
        rs = lambda a: a
    elif shape == "2d":
        rs = lambda a: a.reshape(1, -1) if a.size % 2 else a.reshape(2, -1)
    else:  # same element sequence in C reading order, Fortran memory layout (a transposed view for odd sizes)
        rs = lambda a: np.ascontiguousarray(a.reshape(-1, 1)).T if a.size % 2 else np.asfortranarray(a.reshape(2, -1))
    coords = (rs(e), rs(n))
    for vi, v in enumerate(_data_vectors(npts)):
        if nc == 1:
            data = rs(v)
            comps = [v]
        else:
            comps = [v, v[::-1] * 3.0 + 1.0][:nc]
            data = tuple(rs(c) for c in comps)
        if (vi + npts) % 3 == 1:
            # the data (not the coordinates) as float32: the values compared are the float32 values (seed C01-9: a Jacobian allocated
            # in the data's dtype)
            comps = [c.astype(np.float32).astype(float) for c in comps]
            data = rs(comps[0].astype(np.float32)) if nc == 1 else tuple(rs(c.astype(np.float32)) for c in comps)
        if "forces_at_data" in spec[1]:
            kw_ = {k: v for k, v in spec[1].items() if k != "forces_at_data"}
            perm = np.arange(npts)[::-1] if spec[1]["forces_at_data"] == "reversed" else np.roll(np.arange(npts), 1)
            kw_["force_coords"] = (e[perm].copy(), n[perm].copy())
            est = build_via([spec[0], kw_], ext, ROUTES[(vi + npts) % 4])
        else:
            # the parameters reach the estimator through the constructor, set_params, attribute assignment or clone (rotating)
            est = build_via(spec, ext, ROUTES[(vi + npts + len(str(spec))) % 4])
        # (VectorSpline2D documents that it keeps the force locations of its first fit, so a refitted instance is not an
        # "interpolator with forces at the data points" any more: outside this property, decided by C20)
        if prefit and npts > 2 and "VectorSpline2D" not in str(spec) and "forces_at_data" not in spec[1]:
            # the same instance has seen another, smaller point set before: a refit must behave like a first fit
            k0 = npts - 1
            pc = (e[:k0] * 0.5 + 0.25 * ext, n[:k0] * 0.5 - 0.125 * ext)
            pd_ = np.arange(1.0, k0 + 1) if nc == 1 else tuple(np.arange(1.0, k0 + 1) * (c + 1) for c in range(nc))
            pre = call(rec, est.fit, pc, pd_)
            if raised(pre):
                est = build(spec, ext)
        fit = call(rec, est.fit, coords, data)
        if raised(fit):
            rec.check(False, "%s: fit raised %r" % (what, fit))
            return
        pred = call(rec, est.predict, coords)
        if raised(pred):
            rec.check(False, "%s: predict raised %r" % (what, pred))
            return
        preds = list(pred) if isinstance(pred, tuple) else [pred]
        rec.check(len(preds) == nc, "%s: %d prediction components, expected %d" % (what, len(preds), nc))
        if shape != "1d":
            # the same data points handed over as plain 1-D arrays must give the same values (a layout-dependent but
            # self-consistent pairing of coordinates and data would otherwise go unnoticed)
            pred1 = call(rec, est.predict, (e.copy(), n.copy()))
            if raised(pred1):
                rec.check(False, "%s: predict on 1-D copies of the data points raised %r" % (what, pred1))
                return
            preds1 = list(pred1) if isinstance(pred1, tuple) else [pred1]
        else:
            preds1 = []
        scale = max(float(np.max(np.abs(c))) for c in comps)
        tol = R.tol(cond, scale, 1024.0) if lsq else 1e-12 * scale
        for c, p in zip(comps, preds):
            p = np.asarray(p)
            rec.check(p.shape == coords[0].shape, "%s: prediction shape %s != %s" % (what, p.shape, coords[0].shape))
            err = float(np.max(np.abs(p.ravel() - c)))
            rec.ratio(err / tol)
            rec.check(err <= tol, "%s data #%d: max |predict(data points) - data| = %.3g exceeds %.3g (cond %.3g, scale %.3g)"
                      % (what, vi, err, tol, cond, scale))
        for c, p in zip(comps, preds1):
            err = float(np.max(np.abs(np.asarray(p).ravel() - c)))
            rec.check(err <= tol, "%s data #%d: predicting at the data points given as 1-D arrays misses the data by %.3g (bound %.3g)" % (what, vi, err, tol))


def run(case, rec):
    kind = case["kind"]
    if kind == "interp":
        spec = CONFIGS[case["cfg"]]
        pts, e, n, ext = _coords(case)
        if _needs_triangulation(spec) and (len(pts) < 3 or _collinear(pts)):
            rec.trivial = True
            rec.skip("collinear / fewer than 3 points: outside the space of Linear and Cubic")
            return
        _exactness(rec, spec, e, n, ext, case["frame"]["shape"], "%s on %s" % (spec, pts), case["frame"].get("prefit", False))
        return
    if kind == "ladder":
        spec = CONFIGS[case["cfg"]]
        sc = case["sc"]
        d = case["delta"]
        base = [(0.0, 0.0), (2.0, 0.0), (0.0, 2.0), (2.0, 2.0), (1.0, 1.0), (1.0 + d, 1.0 + d / 2)]
        e = np.array([p[0] for p in base]) * sc
        n = np.array([p[1] for p in base]) * sc
        _exactness(rec, spec, e, n, 2.0 * sc, "1d", "%s on the cross with a sixth point at separation %g" % (spec, d))
        rec.cls("ladder delta=%g" % d)
        return
    if kind == "trend":
        import verde as vd

        deg = case["degree"]
        if case["lat"] in ("3x3", "4x3"):
            lat = L33 if case["lat"] == "3x3" else L43
            nx, ny = (3, 3) if case["lat"] == "3x3" else (4, 3)
        else:
            nx, ny = [int(v) for v in case["lat"].split("x")]
            lat = [(x, y) for y in range(ny) for x in range(nx)]
        pts = [lat[i] for i in case["pts"]]
        sc, off = case["sc"], case["off"]
        ext = max(nx - 1, ny - 1) * sc
        oe, on = off * ext, -0.5 * off * ext
        u = np.array([p[0] for p in pts], dtype=float)
        v = np.array([p[1] for p in pts], dtype=float)
        e, n = u * sc + oe, v * sc + on
        # queries: lattice twice the data extent (extrapolation included)
        qu, qv = np.meshgrid(np.arange(-(nx - 1) // 2 - 1, 2 * nx - 1, dtype=float), np.arange(-(ny - 1) // 2 - 1, 2 * ny - 1, dtype=float))
        qe, qn = qu * sc + oe, qv * sc + on
        Jd = R.trend_design(e, n, deg)
        ref = R.solve(Jd, np.zeros(e.size))
        if Jd.shape[0] < Jd.shape[1] or not np.isfinite(ref["cond"]) or ref["cond"] > 1e10:
            rec.skip("design not unisolvent / cond > 1e10: not compared")
            rec.cls("trend:not-unisolvent")
            rec.trivial = True
            return
        Jq = R.trend_design(qe.ravel(), qn.ravel(), deg) / ref["scale"]
        amp = np.sum(np.abs(Jq), axis=1)
        rec.cls("trend deg=%d cond 1e%d" % (deg, int(math.log10(max(ref["cond"], 1.0)))))
        for (i, j) in R.monomials(deg):
            data = u ** i * v ** j
            est = _trend_by_route(deg, case.get("route", "ctor"), e, n)
            fit = call(rec, est.fit, (e, n), data)
            if raised(fit):
                return rec.check(False, "Trend(%d).fit raised %r" % (deg, fit))
            pred = call(rec, est.predict, (qe, qn))
            if raised(pred):
                return rec.check(False, "Trend.predict raised %r" % (pred,))
            want = qu ** i * qv ** j
            ps = R.solve(Jd, data)["params"] * ref["scale"]
            tol = 256 * ref["cond"] * R.EPS * max(float(np.linalg.norm(ps)), 1e-300) * amp.reshape(qe.shape)
            tol = np.maximum(tol, 64 * R.EPS * np.abs(want))
            err = np.abs(np.asarray(pred) - want)
            k = int(np.argmax(err / tol))
            rec.ratio(float((err / tol).ravel()[k]))
            rec.check(bool(np.all(err <= tol)), "Trend(%d) fitted to u^%d v^%d on %s does not reproduce it at (%r, %r): %r vs %r (cond %.3g)"
                      % (deg, i, j, pts, qu.ravel()[k], qv.ravel()[k], np.asarray(pred).ravel()[k], want.ravel()[k], ref["cond"]))
            # query sets with structure: a profile along each axis through the frame's origin (one coordinate constant - exactly zero
            # in the unshifted frames), a single point, two points (seed C01-13: coordinates normalised by the query set's own maximum)
            lines = [(np.zeros(5) * sc + oe, np.array([-1.0, 0.0, 0.5, 2.0, 3.0]) * sc + on, np.zeros(5), np.array([-1.0, 0.0, 0.5, 2.0, 3.0])),
                     (np.array([-2.0, 0.0, 1.0, 1.5, 4.0]) * sc + oe, np.zeros(5) * sc + on, np.array([-2.0, 0.0, 1.0, 1.5, 4.0]), np.zeros(5)),
                     (np.array([0.0]) * sc + oe, np.array([0.0]) * sc + on, np.array([0.0]), np.array([0.0])),
                     (np.array([1.0, 1.0]) * sc + oe, np.array([2.0, 2.0]) * sc + on, np.array([1.0, 1.0]), np.array([2.0, 2.0]))]
            for le, ln, lu, lv in lines:
                pl = call(rec, est.predict, (le, ln))
                if raised(pl):
                    rec.check(False, "Trend.predict on a structured query set raised %r" % (pl,))
                    continue
                wl = lu ** i * lv ** j
                al = np.sum(np.abs(R.trend_design(le, ln, deg) / ref["scale"]), axis=1)
                tl = np.maximum(256 * ref["cond"] * R.EPS * max(float(np.linalg.norm(ps)), 1e-300) * al, 64 * R.EPS * np.abs(wl))
                rec.check(bool(np.all(np.abs(np.asarray(pl) - wl) <= tl)), "Trend(%d) fitted to u^%d v^%d: prediction %r on the query set (u=%r, v=%r), expected %r"
                          % (deg, i, j, np.asarray(pl).tolist(), lu.tolist(), lv.tolist(), wl.tolist()))
        return
    raise ValueError(kind)
