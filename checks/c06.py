"""
C06  Chain, Vector and filter compose estimators without leaking or losing data.
"""
import itertools
import warnings

import numpy as np

from mc.estimators import build, build_via, ROUTES
from mc.util import call, raised

ID = "C06"
LEVEL = "model_checking"
RULE = (
    "All step lists of length 1..3 (thorough 1..4) over the scalar alphabet {Trend(0), Trend(1), Spline(damping), KNeighbors(2), "
    "BlockReduce(median | average), BlockMean, nested Chain[Trend(1), Spline], nested reducing Chain[BlockReduce, Trend(1)]} and the 2-component alphabet {Vector[Trend(1), "
    "KNeighbors(1)], Vector[Trend(0), Spline], BlockReduce, BlockMean} with at least one predicting step, x 2 point sets on a 2x4 block "
    "layout with unequal populations x weights {none, distinct per point and component} x 1-D / 2-D data; each chain is compared with "
    "a reference that threads (coordinates, data, weights) by hand through FRESH instances of the steps using only their own "
    "fit / predict / filter. Histories: fit(D_a); fit(D_b) and filter-after-fit on the same chain versus a fresh one. Vector "
    "components versus separately fitted estimators on (data[i], weights[i]). Non-trivial: >= 2 steps or a Vector."
    " Added axes: nested chains (plain and reducing), the default Spline, step names all equal / in reverse order, parameter routes for every step, repeated stations, data scaled by 1e-9, integer-dtype data (int64 / int32), constant non-unit weights."
)
ASSUMPTIONS = ["the individual steps' fit / predict / filter are trusted here (they are the subject of C02, C09, C10, C15)",
               "agreement required to 1e-9 x data scale (both sides run the same verde kernels on the same numbers)"]

SCALAR = {
    "T0": ["Trend", {"degree": 0}],
    "T1": ["Trend", {"degree": 1}],
    "S": ["Spline", {"damping": 1e-2}],
    "S0": ["Spline", {}],       # default configuration (an exact interpolator - unless stations repeat): seed C06-9
    "K2": ["KNeighbors", {"k": 2}],
    "BR": ["BlockReduce", {"reduction": "median", "spacing": 1.0}],
    "BM": ["BlockMean", {"spacing": 1.0}],
    "NC": ["Chain", {"steps": [["Trend", {"degree": 1}], ["Spline", {"damping": 1e-1}]]}],
    # a nested chain that itself contains a block reduction: as a step of an outer chain its (inherited) filter must still return
    # residuals at the ORIGINAL points (added after seed C06-2)
    "NR": ["Chain", {"steps": [["BlockReduce", {"reduction": "mean", "spacing": 1.0}], ["Trend", {"degree": 1}]]}],
}
VECTOR = {
    "VTK": ["Vector", {"components": [["Trend", {"degree": 1}], ["KNeighbors", {"k": 1}]]}],
    "VTS": ["Vector", {"components": [["Trend", {"degree": 0}], ["Spline", {"damping": 1e-2}]]}],
    "BR": ["BlockReduce", {"reduction": "median", "spacing": 1.0}],
    "BM": ["BlockMean", {"spacing": 1.0}],
}
REDUCERS = {"BR", "BM"}


def bounds(tier, seed):
    return dict(max_steps=3 if tier == "quick" else 4, scalar_alphabet=sorted(SCALAR), vector_alphabet=sorted(VECTOR), datasets=2)


def cases(tier, seed):
    """The parameters of every step of every chain arrive through one of four routes (constructor / set_params / attribute / clone),
    rotating over the cases and with the seed; the hand-threaded reference always uses the constructor."""
    for i, c in enumerate(_cases(tier, seed)):
        yield dict(c, route=ROUTES[(i + seed) % 4]) if c["kind"] == "chain" else c


def _cases(tier, seed):
    maxlen = 3 if tier == "quick" else 4
    for alpha, names in (("scalar", sorted(SCALAR)), ("vector", sorted(VECTOR))):
        for L in range(1, maxlen + 1):
            for steps in itertools.product(names, repeat=L):
                if all(s in REDUCERS for s in steps):
                    continue
                if L == 4 and alpha == "scalar" and sum(s in ("S", "NC") for s in steps) > 2:
                    continue
                for ds in (0, 1):
                    for w in (False, True):
                        for shape in ("1d", "2d"):
                            if shape == "2d" and (L > 2 or ds == 1):
                                continue
                            yield dict(kind="chain", alpha=alpha, steps=list(steps), ds=ds, w=w, shape=shape)
                # repeated stations (dataset 2) and data of magnitude 1e-9 (an absolute "is it zero" test: seed C06-10)
                if L <= 2:
                    for w in (False, True):
                        yield dict(kind="chain", alpha=alpha, steps=list(steps), ds=2, w=w, shape="1d")
                        yield dict(kind="chain", alpha=alpha, steps=list(steps), ds=0, w=w, shape="1d", dscale=1e-9)
                        # integer-valued data in integer-dtype arrays (round 8, seeds C06-15 / C01-16: residuals cast back to the data's dtype)
                        yield dict(kind="chain", alpha=alpha, steps=list(steps), ds=0, w=w, shape="1d", ddtype="int")
                # step names: all equal (legal: the steps are a list), and in reverse alphabetical order (seed C06-7: iteration over a
                # dict of the names)
                if L >= 2:
                    for naming in ("dup", "rev"):
                        for w in ((True,) if L > 2 else (False, True)):
                            yield dict(kind="chain", alpha=alpha, steps=list(steps), ds=0, w=w, shape="1d", naming=naming)
    for alpha, names in (("scalar", sorted(SCALAR)), ("vector", sorted(VECTOR))):
        for L in (1, 2):
            for steps in itertools.product(names, repeat=L):
                if all(s in REDUCERS for s in steps):
                    continue
                for hist in ("ab", "ba", "aab", "filter_after_fit"):
                    yield dict(kind="history", alpha=alpha, steps=list(steps), hist=hist)
    for key in sorted(SCALAR):
        if key in REDUCERS:
            continue
        for w in (False, True):
            for shape in ("1d", "2d"):
                yield dict(kind="filter", alpha="scalar", step=key, w=w, shape=shape)
                yield dict(kind="filter", alpha="scalar", step=key, w=w, shape=shape, ds=2)
                yield dict(kind="filter", alpha="scalar", step=key, w=w, shape=shape, dscale=1e-9)
                yield dict(kind="filter", alpha="scalar", step=key, w=w, shape=shape, ddtype="int")
                # a third (vertical) coordinate: filter hands back the coordinates it was given, all of them (round 9, seed C06-17)
                yield dict(kind="filter", alpha="scalar", step=key, w=w, shape=shape, xc=True)
    for key in ("VTK", "VTS"):
        for w in (False, True):
            for shape in ("1d", "2d"):
                yield dict(kind="filter", alpha="vector", step=key, w=w, shape=shape)
                yield dict(kind="filter", alpha="vector", step=key, w=w, shape=shape, ddtype="int")
                yield dict(kind="filter", alpha="vector", step=key, w=w, shape=shape, xc=True)
                yield dict(kind="vector_parts", step=key, w=w, shape=shape)
        yield dict(kind="filter", alpha="vector", step=key, w=True, shape="1d", wconst=True)
        yield dict(kind="vector_parts", step=key, w=True, shape="1d", wconst=True)
    for alpha, names in (("scalar", sorted(SCALAR)), ("vector", sorted(VECTOR))):
        for L in (1, 2):
            for steps in itertools.product(names, repeat=L):
                if not all(s in REDUCERS for s in steps):
                    yield dict(kind="chain", alpha=alpha, steps=list(steps), ds=0, w=True, shape="1d", wconst=True)


WCONST = [False]


def _dataset(i):
    """Points on a 2 x 4 block layout (spacing 1 on (0,4)x(0,2)) with unequal block populations; all off the edges."""
    if i in (0, 2):
        pts = [(0.2, 0.3), (0.7, 0.6), (0.4, 0.8), (1.3, 0.4), (2.6, 0.2), (2.2, 0.7), (3.5, 0.5), (0.5, 1.4), (1.6, 1.7), (1.2, 1.2),
               (2.8, 1.6), (3.3, 1.3), (3.8, 1.9), (3.6, 1.1)]
    else:
        pts = [(0.1, 0.1), (3.9, 1.9), (1.5, 0.5), (1.4, 0.9), (1.7, 0.2), (1.2, 0.6), (2.5, 1.5), (0.5, 1.5), (0.6, 1.2), (3.4, 0.4), (2.3, 0.8)]
    if i == 2:
        # repeated stations with different readings (no interpolator can be exact); 14 + 2 points so that the 2-D form still reshapes
        pts = pts + [pts[0], pts[3]]
    e = np.array([p[0] for p in pts]); n = np.array([p[1] for p in pts])
    k = np.arange(e.size)
    d0 = 3.0 * e - 2.0 * n + 0.5 * e * n + ((k * 7) % 5 - 2) * 0.37 + 10.0
    d1 = -1.0 * e + 4.0 * n + ((k * 3) % 7 - 3) * 0.21 - 5.0
    w0 = 1.0 + (k % 4) * 0.5
    w1 = 3.0 - (k % 3) * 0.75
    if WCONST[0]:
        # the same weight for every point, different from 1 (constant uncertainties): still weights (seed C06-12)
        w0, w1 = np.full(e.size, 250.0), np.full(e.size, 0.004)
    return e, n, (d0, d1), (w0, w1)


def _table(alpha):
    return SCALAR if alpha == "scalar" else VECTOR


def _mk(alpha, key, weighted, route="ctor"):
    spec = _table(alpha)[key]
    if key == "BR" and weighted:
        spec = ["BlockReduce", {"reduction": "average", "spacing": 1.0}]
    if key == "NR" and weighted:
        spec = ["Chain", {"steps": [["BlockReduce", {"reduction": "average", "spacing": 1.0}], ["Trend", {"degree": 1}]]}]
    return build_via(spec, 1.0, route)


def _as_list(x):
    return list(x) if isinstance(x, (tuple, list)) else [x]


def _reference(alpha, steps, coords, data, weights, query, weighted):
    """Thread the arguments by hand through fresh instances. Returns (prediction components at query, final args)."""
    args = (coords, data, weights)
    total = None
    for key in steps:
        st = _mk(alpha, key, weighted)
        if key in REDUCERS:
            out = st.filter(*args)
            args = tuple(out) if len(out) == 3 else (out[0], out[1], None)
            continue
        st.fit(*args)
        pred = _as_list(st.predict(args[0]))
        dat = _as_list(args[1])
        resid = [d - p.reshape(np.shape(d)) for d, p in zip(dat, pred)]
        args = (args[0], resid[0] if len(resid) == 1 else tuple(resid), args[2])
        pq = _as_list(st.predict(query))
        total = pq if total is None else [a + b for a, b in zip(total, pq)]
    return total, args


def _close(rec, got, want, scale, what):
    got, want = _as_list(got), _as_list(want)
    if not rec.check(len(got) == len(want), "%s: %d components, expected %d" % (what, len(got), len(want))):
        return
    for k, (g, w) in enumerate(zip(got, want)):
        g, w = np.asarray(g, dtype=float), np.asarray(w, dtype=float)
        if not rec.check(g.shape == w.shape, "%s: component %d shape %s != %s" % (what, k, g.shape, w.shape)):
            continue
        err = float(np.max(np.abs(g - w))) if g.size else 0.0
        rec.check(err <= 1e-9 * scale, "%s: component %d differs from the hand-threaded reference by %.3g (scale %.3g): %s vs %s"
                  % (what, k, err, scale, g.ravel()[:4].tolist(), w.ravel()[:4].tolist()))


def run(case, rec):
    import verde as vd

    warnings.simplefilter("ignore")
    WCONST[0] = bool(case.get("wconst"))
    kind = case["kind"]
    qe, qn = np.meshgrid(np.linspace(0.25, 3.75, 5), np.linspace(0.25, 1.75, 3))
    if kind in ("chain", "history"):
        alpha, steps = case["alpha"], case["steps"]
        weighted = case.get("w", False)

        dscale = case.get("dscale", 1.0)

        def args_for(ds_i, shape="1d"):
            e, n, d, w = _dataset(ds_i)
            d = tuple(x * dscale for x in d)
            if case.get("ddtype") == "int":
                d = (np.round(d[0]).astype(np.int64), np.round(d[1]).astype(np.int32))
            if shape == "2d" and e.size % 2 == 0:
                rs = lambda a: a.reshape(2, -1)
            else:
                rs = lambda a: a
            data = rs(d[0]) if alpha == "scalar" else (rs(d[0]), rs(d[1]))
            wts = None
            if weighted:
                wts = rs(w[0]) if alpha == "scalar" else (rs(w[0]), rs(w[1]))
            return (rs(e), rs(n)), data, wts

        def chain():
            naming = case.get("naming", "unique")
            name = {"unique": lambda i: "s%d" % i, "dup": lambda i: "step", "rev": lambda i: "s%d" % (9 - i)}[naming]
            return vd.Chain([(name(i), _mk(alpha, k, weighted, case.get("route", "ctor"))) for i, k in enumerate(steps)])

        scale = 30.0 * dscale
        if kind == "chain":
            coords, data, wts = args_for(case["ds"], case["shape"])
            ch = chain()
            fit = call(rec, ch.fit, coords, data, wts)
            try:
                want, final = _reference(alpha, steps, coords, data, wts, (qe, qn), weighted)
            except Exception as exc:  # noqa: BLE001
                # the composition itself is not executable step by step (e.g. too few points after a reduction):
                # verde must not silently succeed with something else
                rec.skip("composition not executable by hand (%s)" % type(exc).__name__)
                rec.trivial = True
                return
            if raised(fit):
                return rec.check(False, "Chain%s.fit raised %r but threading the steps by hand works" % (steps, fit))
            rec.check(fit is ch, "fit must return self")
            got = call(rec, ch.predict, (qe, qn))
            if raised(got):
                return rec.check(False, "Chain.predict raised %r" % (got,))
            _close(rec, got, want, scale, "Chain%s.predict" % steps)
            if any(k in REDUCERS for k in steps):
                # Chain.filter of a reducing chain: still (same coordinates, data - prediction at those coordinates, same weights)
                ch2 = chain()
                out = call(rec, ch2.filter, coords, data, wts)
                if raised(out):
                    rec.check(False, "Chain.filter raised %r" % (out,))
                else:
                    rec.check(isinstance(out, tuple) and len(out) == 3 and out[0] is coords and out[2] is wts, "filter must return the coordinates and weights it was given")
                    at = _as_list(ch.predict(coords))
                    want_res = [np.asarray(d) - np.asarray(p).reshape(np.shape(d)) for d, p in zip(_as_list(data), at)]
                    if len(out) == 3:
                        _close(rec, out[1], want_res, scale, "Chain.filter residuals of a reducing chain (data - prediction at the data)")
            if not any(k in REDUCERS for k in steps):
                at_data = call(rec, ch.predict, coords)
                if not raised(at_data):
                    lhs = [np.asarray(p).reshape(np.shape(d)) + r for p, d, r in zip(_as_list(at_data), _as_list(data), _as_list(final[1]))]
                    _close(rec, lhs, _as_list(data), scale, "chain prediction at the data + last residual == data")
                # Chain.filter = residuals in the data's shape, same coordinate/weight objects
                ch2 = chain()
                out = call(rec, ch2.filter, coords, data, wts)
                if raised(out):
                    rec.check(False, "Chain.filter raised %r" % (out,))
                else:
                    rec.check(out[0] is coords and out[2] is wts, "filter must return the coordinates and weights it was given")
                    _close(rec, out[1], final[1], scale, "Chain.filter residuals")
            rec.check(tuple(float(v) for v in ch.region_) == tuple(float(v) for v in vd.get_region(coords)), "region_ is not the bounding box of the data")
            rec.trivial = len(steps) < 2 and alpha == "scalar"
            rec.cls("%s/len%d/%s" % (alpha, len(steps), "reducing" if any(k in REDUCERS for k in steps) else "residual"))
            return
        # histories
        hist = case["hist"]
        A, Bd = args_for(0), args_for(1)
        for a in (A, Bd):
            probe = chain()
            if raised(call(rec, probe.fit, *a)):
                # the composition itself cannot be fitted (e.g. a weight-less reduction after a step that produces weights)
                rec.trivial = True
                rec.skip("composition not executable even on a fresh chain")
                return
        ch = chain()
        try:
            if hist == "filter_after_fit":
                if any(k in REDUCERS for k in steps):
                    rec.trivial = True
                    return
                call(rec, ch.fit, *A)
                out = call(rec, ch.filter, *Bd)
                fresh = chain()
                want = call(rec, fresh.filter, *Bd)
                if raised(out) or raised(want):
                    return rec.check(raised(out) == raised(want), "filter after fit: %r vs fresh %r" % (out, want))
                _close(rec, out[1], want[1], scale, "filter(D_b) after fit(D_a) vs fresh filter(D_b)")
                last = Bd
            else:
                seq = {"ab": [A, Bd], "ba": [Bd, A], "aab": [A, A, Bd]}[hist]
                for a in seq:
                    r = call(rec, ch.fit, *a)
                    if raised(r):
                        return rec.check(False, "refit raised %r" % (r,))
                last = seq[-1]
            fresh = chain()
            r = call(rec, fresh.fit, *last)
            if raised(r):
                rec.trivial = True
                return
            got, want = call(rec, ch.predict, (qe, qn)), call(rec, fresh.predict, (qe, qn))
            if raised(got) or raised(want):
                return rec.check(False, "predict after history raised %r / %r" % (got, want))
            _close(rec, got, want, scale, "Chain%s after history %s vs a fresh chain fitted to the last data" % (steps, hist))
            rec.check(tuple(ch.region_) == tuple(fresh.region_), "region_ after refit differs from a fresh fit")
        finally:
            pass
        rec.cls("history/%s" % hist)
        return
    if kind in ("filter", "vector_parts"):
        alpha = "scalar" if case.get("alpha", "vector") == "scalar" else "vector"
        e, n, d, w = _dataset(case.get("ds", 0))
        d = tuple(x * case.get("dscale", 1.0) for x in d)
        if case.get("ddtype") == "int":
            d = (np.round(d[0]).astype(np.int64), np.round(d[1]).astype(np.int32))
        rs = (lambda a: a.reshape(2, -1)) if case["shape"] == "2d" else (lambda a: a)
        coords = (rs(e), rs(n))
        if case.get("xc"):
            coords = coords + (rs(np.arange(e.size, dtype=float) * 3.0 + 100.0),)
        data = rs(d[0]) if alpha == "scalar" else (rs(d[0]), rs(d[1]))
        wts = None
        if case["w"]:
            wts = rs(w[0]) if alpha == "scalar" else (rs(w[0]), rs(w[1]))
        est = _mk(alpha, case["step"], case["w"])
        if kind == "filter":
            out = call(rec, est.filter, coords, data, wts)
            if raised(out):
                return rec.check(False, "filter raised %r" % (out,))
            rec.check(isinstance(out, tuple) and len(out) == 3, "filter must return (coordinates, residuals, weights)")
            rec.check(out[0] is coords, "filter must return the coordinate object it was given")
            rec.check(len(out[0]) == len(coords) and all(a_ is b_ for a_, b_ in zip(out[0], coords)), "filter returned %d coordinate arrays for the %d it was given" % (len(out[0]), len(coords)))
            rec.check(out[2] is wts, "filter must return the weights object it was given")
            fresh = _mk(alpha, case["step"], case["w"])
            fresh.fit(coords, data, wts)
            pred = _as_list(fresh.predict(coords))
            want = [dd - p.reshape(dd.shape) for dd, p in zip(_as_list(data), pred)]
            res = _as_list(out[1])
            rec.check(isinstance(out[1], tuple) == (alpha == "vector"), "residual container type does not follow the data")
            for r_, dd in zip(res, _as_list(data)):
                rec.check(np.asarray(r_).shape == dd.shape, "residual shape %s != data shape %s" % (np.asarray(r_).shape, dd.shape))
            _close(rec, res, want, 30.0 * case.get("dscale", 1.0), "filter residuals = data - prediction")
            rec.cls("filter/%s" % case["step"])
            return
        # Vector components versus separately fitted estimators
        fit = call(rec, est.fit, coords, data, wts)
        if raised(fit):
            return rec.check(False, "Vector.fit raised %r" % (fit,))
        got = call(rec, est.predict, (qe, qn))
        if raised(got):
            return rec.check(False, "Vector.predict raised %r" % (got,))
        rec.check(isinstance(got, tuple) and len(got) == 2, "Vector.predict must return one array per component")
        specs = VECTOR[case["step"]][1]["components"]
        for i, sp in enumerate(specs):
            solo = build(sp, 1.0)
            solo.fit(coords, data[i], None if wts is None else wts[i])
            want = solo.predict((qe, qn))
            _close(rec, got[i], want, 30.0, "Vector component %d vs separately fitted %s" % (i, sp[0]))
            # cross-talk guard: the other component / other weights must give something different
            other = build(sp, 1.0)
            other.fit(coords, data[1 - i], None if wts is None else wts[1 - i])
            rec.cls("vector:cross-talk-visible" if not np.allclose(other.predict((qe, qn)), want) else "vector:cross-talk-invisible")
        return
    raise ValueError(kind)
