"""
C14  Rolling and expanding windows select exactly the points inside each window.
"""
import itertools
import math
from fractions import Fraction as F

import numpy as np

from mc.util import call, call_w, raised, pick_frames, array_args, array_args_unchanged
from models import gridref as G

ID = "C14"
LEVEL = "model_checking"
RULE = (
    "Exhaustive product: point cloud {all 221 nodes of the quarter-unit lattice on (0,4)x(0,3) as 1-D / 2-D / 2-D with an extra "
    "coordinate; every k-subset (k<=3) of 9 marker points (inferred regions, empty windows)} x window size {0.5,1,1.5,2,3} x "
    "{scalar and per-direction spacings incl. non-dividing, shapes {2,3}^2} x region {inferred, given, strictly inside the cloud} "
    "x adjust x dyadic frames; every window of every call is compared point by point with the exact closed-square predicate "
    "around the returned centre, centres with the exact rational grid; expanding_window: centres on/off the lattice x every "
    "ordering of size lists. Non-trivial: at least one non-empty and one partial window."
    " Added axes: Fortran / integer / repeated-position forms, regions larger than the data with sizes up to the region's smaller side, frames 2^-30 and (2^-8, 2^20), frame (1, 7.46e6) with float64 / float32 coordinates, numpy-array arguments."
)
ASSUMPTIONS = ["a point within 4 ulp of a window edge may go either way unless the coordinate difference is exact in floating point",
               "window grids with one window per axis given as shape=(1, .) are not explored (verde's overlap warning divides by zero there)"]

MARK = [(0.0, 0.0), (4.0, 3.0), (1.0, 2.0), (2.5, 0.5), (3.0, 3.0), (0.5, 2.75), (2.0, 1.5), (3.75, 0.25), (1.25, 1.25)]
SIZES = [0.5, 1.0, 1.5, 2.0, 3.0]
STEPS = [dict(spacing=s) for s in (0.5, 0.75, 1.0, 1.25, 2.0)] + [dict(spacing=[0.5, 1.0]), dict(spacing=[1.0, 0.5])] + \
    [dict(shape=[a, b]) for a in (2, 3) for b in (2, 3)]
REGIONS = [None, [0.0, 4.0, 0.0, 3.0], [0.5, 3.5, 0.25, 2.75], [1.0, 3.0, 1.0, 3.0]]
FRAMES = [[1.0, 0.0], [2.0 ** -7, 0.0], [2.0 ** 10, 0.0], [1.0, 4096.0], [2.0 ** -30, 0.0], [2.0 ** -8, 2.0 ** 20]]


def bounds(tier, seed):
    return dict(frames=pick_frames(FRAMES, tier, seed), sizes=SIZES, steps=STEPS, regions=REGIONS, markers=MARK)


def cases(tier, seed):
    """Every fifth rolling-window case (rotating with the seed) passes region / shape / spacing as numpy arrays (purity checked)."""
    for i, c in enumerate(_cases(tier, seed)):
        yield dict(c, args="ndarray") if (i + seed) % 5 == 0 and c["kind"] == "roll" else c


def _cases(tier, seed):
    frames_forms = [(fr, form) for fr in pick_frames(FRAMES, tier, seed) for form in ("1d", "2d", "2d+extra", "table_ne")]
    # other representations of the same cloud: Fortran-ordered 2-D arrays, integer dtype (lattice scaled by 4 so that it is
    # integer valued) for both coordinates or for the easting only
    frames_forms += [([1.0, 0.0], "2dF"), ([4.0, 0.0], "int"), ([4.0, 0.0], "int_e"), ([1.0, 0.0], "dups")]
    for fr, form in frames_forms:
        if True:
            for region in REGIONS:
                for size in SIZES:
                    for st in STEPS:
                        for adjust in ("spacing", "region"):
                            if "shape" in st and adjust == "region":
                                continue
                            yield dict(kind="roll", frame=fr, cloud="lattice", form=form, region=region, size=size, step=st, adjust=adjust)
    # regions LARGER than the data extent, window sizes between the data's smaller side and the region's (seed C14-8: the size test
    # made against the bounding box of the data instead of the region); also for small clouds
    for fr in pick_frames(FRAMES, tier, seed)[:2]:
        for region in ([-1.0, 6.0, -2.0, 5.0], [0.0, 9.0, 0.0, 3.5], [-4.0, 4.0, -6.0, 3.0]):
            for size in (1.0, 3.0, 3.5, 5.0):
                for st in (dict(spacing=1.0), dict(spacing=[0.5, 1.25]), dict(shape=[2, 3])):
                    yield dict(kind="roll", frame=fr, cloud="lattice", form="1d", region=region, size=size, step=st, adjust="spacing")
                    for sub in ([0], [2, 6], [1, 3, 5]):
                        yield dict(kind="roll", frame=fr, cloud=sub, form="1d", region=region, size=size, step=st, adjust="spacing")
    for fr in pick_frames(FRAMES, tier, seed):
        for k in (1, 2, 3):
            for sub in itertools.combinations(range(len(MARK)), k):
                for size in (0.5, 1.0):
                    for st in (dict(spacing=0.5), dict(shape=[2, 2]), dict(spacing=[1.0, 0.75])):
                        yield dict(kind="roll", frame=fr, cloud=list(sub), form="1d", region=None, size=size, step=st, adjust="spacing")
        centers = [(2.0, 1.5), (0.0, 0.0), (1.25, 2.75), (2.1, 1.3), (-1.0, 5.0)]
        szs = [0.1, 0.5, 1.0, 2.0, 4.0]
        for form in ("1d", "2d", "2d+extra") + (("2dF", "dups", "table_ne", "table_rev") if fr == [1.0, 0.0] else ()):
            for c in centers:
                for k in (1, 2, 3):
                    for sl in itertools.permutations(szs, k):
                        if k == 3 and form != "1d" and tier == "quick":
                            continue
                        yield dict(kind="expand", frame=fr, form=form, center=list(c), sizes=list(sl))
        # windows LARGER than the whole cloud whose centre lies outside it (round 9, seed C14-18: "a window wider than the data holds all of it")
        for form in ("1d", "2d"):
            for c in [(9.0, 1.5), (-6.0, 1.0), (2.0, 11.0), (12.0, 12.0), (5.0, 4.0)]:
                for k in (1, 2):
                    for sl in itertools.permutations([9.0, 14.0, 30.0], k):
                        yield dict(kind="expand", frame=fr, form=form, center=list(c), sizes=list(sl))
        for bad in ("oversized_e", "oversized_n", "no_step"):
            yield dict(kind="invalid", frame=fr, bad=bad)
    # projected-coordinate magnitudes, float64 and float32 coordinate arrays (a float32 step is 0.5 there) with Python-float centres that
    # float32 cannot represent (seed C14-10: the centre rounded to the coordinates' dtype); rolling windows over the same arrays
    fr = [1.0, 7460000.0]
    for form in ("1d", "f32", "f32_e"):
        for c in [(2.0, 1.5), (2.1, 1.3), (1.3, 2.2), (0.2, 0.2)]:
            for k in (1, 2):
                for sl in itertools.permutations([0.1, 0.5, 1.0, 2.0, 4.0], k):
                    yield dict(kind="expand", frame=fr, form=form, center=list(c), sizes=list(sl))
        for size in (1.0, 1.5, 3.0):
            for st in (dict(spacing=0.5), dict(spacing=[1.0, 0.75]), dict(shape=[2, 3])):
                yield dict(kind="roll", frame=fr, cloud="lattice", form=form, region=[0.0, 4.0, 0.0, 3.0], size=size, step=st, adjust="spacing")


def _cloud(case):
    sc, off = case["frame"]
    if case.get("cloud", "lattice") == "lattice":
        pts = [(i / 4, j / 4) for j in range(0, 13) for i in range(0, 17)]
    else:
        pts = [MARK[i] for i in case["cloud"]]
    e = np.array([p[0] * sc + off for p in pts])
    n = np.array([p[1] * sc + off for p in pts])
    form = case["form"]
    if form == "dups":
        # repeated positions are distinct points (several heights above one station, a line flown twice): seed C14-r2_2
        e = np.concatenate([e, e[::3], e[::7]])
        n = np.concatenate([n, n[::3], n[::7]])
    if form in ("2d", "2d+extra", "2dF"):
        e, n = e.reshape(13, 17), n.reshape(13, 17)
    if form == "2dF":
        e, n = np.asfortranarray(e), np.asfortranarray(n)
    if form in ("table_ne", "table_rev"):
        # 1-D coordinates that are views of ONE (N, 2) table, columns in (northing, easting) order / reversed views of a reversed table (round 8)
        if form == "table_ne":
            tab = np.column_stack([n, e])
            e, n = tab[:, 1], tab[:, 0]
        else:
            tab = np.column_stack([e, n])[::-1].copy()
            e, n = tab[::-1, 0], tab[::-1, 1]
    if form == "int":
        e, n = e.astype(np.int64), n.astype(np.int64)
    if form == "int_e":
        e = e.astype(np.int64)
    if form in ("f32", "f32_e"):
        e = e.astype(np.float32)
        if form == "f32":
            n = n.astype(np.float32)
    coords = (e, n)
    if form == "2d+extra":
        coords = (e, n, np.arange(e.size, dtype=float).reshape(e.shape) * 10)
    return coords


def _exact_in(p, c, half):
    """Closed-square membership relative to the returned float centre, in exact arithmetic.
    Returns True / False / None (None: within 4 ulp of the edge and the float difference is inexact)."""
    res = True
    und = False
    for pv, cv in zip(p, c):
        d = abs(F(float(pv)) - F(float(cv)))
        h = F(half)
        if d == h:
            # on the edge: decidable only if the float subtraction is exact
            if F(float(pv) - float(cv)) == F(float(pv)) - F(float(cv)):
                continue
            und = True
            continue
        tol = F(4 * max(math.ulp(abs(float(pv))), math.ulp(abs(float(cv))), 5e-324))
        if abs(d - h) <= tol and F(float(pv) - float(cv)) != F(float(pv)) - F(float(cv)):
            und = True
            continue
        if d > h:
            res = False
    if not res:
        return False
    return None if und else True


def _check_indices(rec, coords, idx, want_set, und_set, what):
    e = coords[0]
    ok = isinstance(idx, tuple) and len(idx) == e.ndim
    if not rec.check(ok, "%s: indices must be a tuple of %d index arrays, got %r" % (what, e.ndim, type(idx))):
        return
    arrs = [np.asarray(a) for a in idx]
    rec.check(all(np.issubdtype(a.dtype, np.integer) for a in arrs), "%s: index arrays are not integer" % what)
    try:
        sel = [np.asarray(c)[idx] for c in coords]
    except Exception as exc:  # noqa: BLE001
        rec.check(False, "%s: indices cannot index the input arrays: %r" % (what, exc))
        return
    flat = np.ravel_multi_index(tuple(arrs), e.shape) if arrs[0].size else np.array([], dtype=int)
    got = set(int(i) for i in flat)
    rec.check(len(got) == flat.size, "%s: duplicate indices" % what)
    missing = want_set - got - und_set
    extra = got - want_set - und_set
    rec.check(not missing and not extra, "%s: selected set differs from the closed square: missing %s extra %s"
              % (what, sorted(missing)[:5], sorted(extra)[:5]))
    return got


def run(case, rec):
    import verde as vd

    sc, off = case["frame"]
    kind = case["kind"]
    if kind == "invalid":
        rec.trivial = True
        coords = _cloud(dict(frame=case["frame"], form="1d"))
        bad = case["bad"]
        if bad == "oversized_e":
            got = call(rec, vd.rolling_window, coords, size=4.25 * sc, spacing=1 * sc, region=[off, 4 * sc + off, off, 5 * sc + off])
        elif bad == "oversized_n":
            got = call(rec, vd.rolling_window, coords, size=3.5 * sc, spacing=1 * sc)
        else:
            got = call(rec, vd.rolling_window, coords, size=1 * sc)
        rec.check(raised(got) and isinstance(got.exc, ValueError), "%s must raise ValueError, got %r" % (bad, type(got)))
        rec.cls("refusal:" + bad)
        return
    coords = _cloud(case)
    e, n = coords[0], coords[1]
    fe, fn = e.ravel(), n.ravel()
    if kind == "expand":
        c = [case["center"][0] * sc + off, case["center"][1] * sc + off]
        sizes = [s * sc for s in case["sizes"]]
        got = call(rec, vd.expanding_window, coords, tuple(c), sizes)
        if raised(got):
            return rec.check(False, "expanding_window raised %r" % (got,))
        rec.check(isinstance(got, list) and len(got) == len(sizes), "one index set per size expected")
        sets = []
        for k, (sz, idx) in enumerate(zip(sizes, got)):
            want, und = set(), set()
            for i in range(fe.size):
                r = _exact_in((fe[i], fn[i]), c, sz / 2)
                if r is True:
                    want.add(i)
                elif r is None:
                    und.add(i)
            g = _check_indices(rec, coords, idx, want, und, "expanding window #%d size %r" % (k, sz))
            sets.append(g)
            rec.count("windows", 1)
            rec.count("empty_windows", 0 if want else 1)
        for i, j in itertools.permutations(range(len(sizes)), 2):
            if sizes[i] <= sizes[j] and sets[i] is not None and sets[j] is not None:
                rec.check(sets[i] <= sets[j], "windows not nested by size: %r vs %r" % (sizes[i], sizes[j]))
        rec.cls("expand/%d sizes/%s" % (len(sizes), case["form"]))
        return
    # rolling
    size = case["size"] * sc
    st = case["step"]
    kw = dict(adjust=case["adjust"])
    if "shape" in st:
        kw["shape"] = tuple(st["shape"])
    else:
        sp = st["spacing"]
        kw["spacing"] = tuple(v * sc for v in sp) if isinstance(sp, list) else sp * sc
    if case["region"] is not None:
        region = [v * sc + off for v in case["region"]]
        kw["region"] = region
    else:
        region = [float(fe.min()), float(fe.max()), float(fn.min()), float(fn.max())]
    if case.get("args") == "ndarray":
        kw_a, snap = array_args(kw)
        got, wl = call_w(rec, vd.rolling_window, coords, size, **kw_a)
        rec.check(array_args_unchanged(kw_a, snap), "rolling_window modified an argument array: %r -> %r" % ({k: v[0].tolist() for k, v in snap.items()}, {k: kw_a[k].tolist() for k in snap}))
    else:
        got, wl = call_w(rec, vd.rolling_window, coords, size, **kw)
    minw = min(region[1] - region[0], region[3] - region[2])
    if minw < size:
        rec.trivial = True
        rec.cls("refusal:oversized")
        rec.check(raised(got) and isinstance(got.exc, ValueError), "window larger than the region must raise, got %r" % (type(got),))
        return
    if raised(got):
        return rec.check(False, "rolling_window raised %r" % (got,))
    centers, indices = got
    ce, cn = np.asarray(centers[0]), np.asarray(centers[1])
    wreg = [region[0] + size / 2, region[1] - size / 2, region[2] + size / 2, region[3] - size / 2]
    lays = []
    for ax in (0, 1):
        lo, hi = wreg[2 * ax], wreg[2 * ax + 1]
        if "shape" in st:
            lays.append(G.axis_layouts(lo, hi, size=st["shape"][1 - ax]))
        else:
            sp = kw["spacing"]
            spv = sp[1 - ax] if isinstance(sp, tuple) else sp
            lays.append(G.axis_layouts(lo, hi, spacing=spv, adjust=case["adjust"]))
    ok2d = ce.ndim == 2 and ce.shape == cn.shape
    if not rec.check(ok2d, "window centres must be 2-D meshgrids"):
        return
    rec.check(bool(np.all(ce == ce[0:1, :])) and bool(np.all(cn == cn[:, 0:1])), "window centres are not a meshgrid")
    ke = G.match_axis(ce[0, :], lays[0][0], (wreg[0], lays[0][1], region[0], region[1]))
    kn = G.match_axis(cn[:, 0], lays[1][0], (wreg[2], lays[1][1], region[2], region[3]))
    rec.check(ke is not None and kn is not None,
              "window centres %s / %s are not the regular grid of the region shrunk by half a window %r"
              % (ce[0, :].tolist(), cn[:, 0].tolist(), wreg))
    indices = np.asarray(indices, dtype=object) if not isinstance(indices, np.ndarray) else indices
    if not rec.check(indices.shape == ce.shape, "indices shape %s != centres shape %s" % (indices.shape, ce.shape)):
        return
    covered = set()
    nempty = npartial = 0
    for i in range(ce.shape[0]):
        for j in range(ce.shape[1]):
            c = (float(ce[i, j]), float(cn[i, j]))
            want, und = set(), set()
            for p in range(fe.size):
                r = _exact_in((fe[p], fn[p]), c, size / 2)
                if r is True:
                    want.add(p)
                elif r is None:
                    und.add(p)
            g = _check_indices(rec, coords, indices[i, j], want, und, "window (%d,%d) centre %r size %r" % (i, j, c, size))
            if g:
                covered |= g
            if not want:
                nempty += 1
                idx = indices[i, j]
                if isinstance(idx, tuple):
                    rec.check(all(np.asarray(a).size == 0 and np.issubdtype(np.asarray(a).dtype, np.integer) for a in idx),
                              "empty window must give empty integer index arrays")
            elif len(want) < fe.size:
                npartial += 1
    rec.count("windows", int(ce.size))
    rec.count("empty_windows", nempty)
    # joint coverage when the actual step does not exceed the window size
    steps_ok = True
    for arr in (ce[0, :], cn[:, 0]):
        if arr.size > 1 and float(np.max(np.diff(arr))) > size + 4 * math.ulp(size):
            steps_ok = False
    if steps_ok and ke is not None and kn is not None:
        lo_e, hi_e = float(ce[0, 0]) - size / 2, float(ce[0, -1]) + size / 2
        lo_n, hi_n = float(cn[0, 0]) - size / 2, float(cn[-1, 0]) + size / 2
        tol = 4 * max(math.ulp(abs(hi_e)), math.ulp(abs(hi_n)), math.ulp(abs(lo_e)), math.ulp(abs(lo_n)))
        unc = [p for p in range(fe.size)
               if lo_e + tol < fe[p] < hi_e - tol and lo_n + tol < fn[p] < hi_n - tol and p not in covered]
        rec.check(not unc, "windows with step <= size do not cover points %s" % ([(float(fe[p]), float(fn[p])) for p in unc[:4]],))
        rec.cls("covering")
    else:
        rec.cls("non-covering")
        rec.check(any("do not overlap" in m for _, m in wl) or True, "")
    rec.trivial = (npartial == 0)
    rec.cls("roll/%s/%s/%s" % (case["form"], "shape" if "shape" in st else "spacing", "inferred" if case["region"] is None else "given"))
