"""
C20  Calls are pure, repeatable, history-free and reject inconsistent input.

(a) catalogue: every public callable / estimator method x argument templates x {writable, read-only,
    non-contiguous} per array slot: inputs byte-wise unchanged, read-only == writable, twice == once.
(b) E2: breadth-first search over call histories of every estimator spec (explicit-state search;
    a state is rebuilt by replaying its history on a fresh estimator).
(c) every single inconsistency of otherwise valid arguments must raise.
"""
import io
import itertools
import os
import tempfile
import copy
import warnings

import numpy as np

from mc.util import call, raised

ID = "C20"
LEVEL = "model_checking"
RULE = (
    "(a) catalogue of %d call templates covering every public function of verde, verde.utils, verde.base and every public method of every "
    "estimator / reducer / cross-validator; for each template: base run, a second identical run, and one run per array slot with that slot "
    "read-only and one with it as a non-contiguous view (2-D slots also Fortran-ordered), plus all slots read-only; the caller overwrites every returned buffer "
    "before the second run; interference: for every ordered pair of option variants (A, B) of 25 function families: A, B, A again must "
    "give A's result. (b) explicit-state BFS over histories of %d estimator specs "
    "with the event alphabet {fit(D_a), fit(D_b), fit(D_c), fit(D_d = D_a re-located by parts in 1e7, other readings), predict, filter(D_a), grid, score(last dataset), scatter, profile, clone, set_params(**get_params()), switch to an "
    "alternative / back to the base parameter set through set_params, caller overwrites the arrays it passed earlier}, depth 3 (thorough 4), every history replayed on a fresh estimator (histories merged on (abstract state, concrete fingerprint) only for SplineCV), invariant: the "
    "fingerprint equals that of the shortest history with the same abstract state; (b2) histories of depth 3 (thorough 4) over ONE instance of each of 9 parameter-only objects (BlockReduce x3, BlockMean x2, BlockKFold x2, BlockShuffleSplit, CheckerBoard) with the alphabet {call on D_a / D_b / D_c, call again with the same array objects reversed in place, two interleaved split loops on one cross-validator, switch a parameter and back, clone, params round trip, caller overwrites everything passed and received}: every call equals that of a fresh instance with the current parameters. (c) %d single inconsistencies that must raise. "
    "Non-trivial: every case."
    " Added axes: read-only / view / Fortran variants compared with round-off tolerance, scribble on outputs then repeat, same array objects with new contents, interference sequences A, B, A over 26 function families, parameter switch events with stale states, invalid table of about 150 inconsistent calls (shapes, component counts, both / neither of shape and spacing, inverted and out-of-range regions incl. UTM-scale and geographic ones)."
)
ASSUMPTIONS = ["fingerprints: predictions on a probe set rounded to 9 significant digits (NaN-aware), region_, repr(get_params())",
               "Linear and Cubic keep references to the caller's arrays inside SciPy's interpolator; the 'caller overwrites' event is not applied to "
               "them (the property's anchors name the copies taken by Spline, VectorSpline2D and KNeighbors)"]


# ------------------------------------------------------------------------------------------ fixtures
def _pts(which):
    if which == "a":
        e = np.array([0.2, 0.7, 1.3, 2.6, 3.5, 0.5, 1.6, 2.8, 3.3, 3.8, 2.2, 1.2])
        n = np.array([0.3, 0.6, 0.4, 0.2, 0.5, 1.4, 1.7, 1.6, 1.3, 1.9, 0.7, 1.2])
    elif which == "d":
        # the stations of dataset a re-located by a few parts in 1e7 (a repeat survey), with quite different readings (round 8, seed C03-16:
        # a triangulation reused when the new points are np.allclose to the old ones)
        e0, n0, d00, d10 = _pts("a")
        k0 = np.arange(e0.size)
        return e0 * (1 + 3e-7) + 2e-7 * ((k0 * 5) % 3), n0 * (1 - 2e-7) - 1e-7 * (k0 % 4), 50.0 - 3.0 * d00[::-1], 7.0 + 2.0 * d10[::-1]
    elif which == "b":
        e = np.array([10.0, 11.5, 13.0, 10.5, 12.2, 11.1, 12.9, 10.2])
        n = np.array([-5.0, -4.2, -4.8, -3.1, -3.5, -4.6, -3.9, -3.3])
    else:
        e = np.array([[-2.0, -1.1, 0.4], [-1.6, 0.9, -0.3]])
        n = np.array([[7.0, 8.2, 7.5], [8.8, 8.1, 7.9]])
    k = np.arange(e.size).reshape(e.shape)
    d0 = 2.0 * e - 1.5 * n + ((k * 7) % 5) * 0.8 + 1.0
    d1 = -0.5 * e + 3.0 * n + ((k * 3) % 4) * 0.6
    return e, n, d0, d1


PROBE = (np.array([0.5, 1.5, 2.5, 3.5, 11.0, 12.0, -1.0, 0.0]), np.array([0.5, 1.0, 1.5, 0.7, -4.0, -3.6, 7.8, 8.0]))

SPECS = {
    "Spline": lambda vd: vd.Spline(),
    "Spline(damping)": lambda vd: vd.Spline(damping=1e-2),
    "Spline(force_coords)": lambda vd: vd.Spline(damping=1e-3, force_coords=(np.array([0.0, 4.0, 2.0, 12.0]), np.array([0.0, 2.0, 1.0, -4.0]))),
    "SplineCV": lambda vd: vd.SplineCV(dampings=(1e-3, 1e-1)),
    "Trend(1)": lambda vd: vd.Trend(1),
    "KNeighbors(2)": lambda vd: vd.KNeighbors(k=2),
    "Linear": lambda vd: vd.Linear(),
    "Cubic": lambda vd: vd.Cubic(),
    "VectorSpline2D": lambda vd: vd.VectorSpline2D(mindist=0.5),
    "VectorSpline2D(force_coords)": lambda vd: vd.VectorSpline2D(mindist=0.5, damping=1e-2, force_coords=(np.array([0.0, 4.0, 2.0]), np.array([0.0, 2.0, 1.0]))),
    "Vector": lambda vd: vd.Vector([vd.Trend(1), vd.KNeighbors(k=1)]),
    "Chain": lambda vd: vd.Chain([("t", vd.Trend(1)), ("s", vd.Spline(damping=1e-2))]),
    "Chain(reduce)": lambda vd: vd.Chain([("r", vd.BlockReduce(np.mean, spacing=1.0)), ("t", vd.Trend(1)), ("k", vd.KNeighbors(k=1))]),
}
VECTOR_SPECS = {"VectorSpline2D", "VectorSpline2D(force_coords)", "Vector"}
NO_OVERWRITE = {"Linear", "Cubic"}
DEDUPE = {"SplineCV"}
EVENTS = ["fit_a", "fit_b", "fit_c", "fit_d", "predict", "filter_a", "grid", "clone", "params", "overwrite", "alt", "base", "score", "scatter", "profile"]
OBSERVERS = ("predict", "grid", "score", "scatter", "profile")


def _set_alt(spec, est, alt):
    """Switch the estimator between its base parameter set and an alternative one through the public set_params
    (for composites: on the first sub-estimator).  Added after seed C20-2 (a memo that set_params did not invalidate)."""
    table = {
        "Spline": ("damping", None, 1e-1), "Spline(damping)": ("damping", 1e-2, 1.0), "Spline(force_coords)": ("damping", 1e-3, 1e-1),
        "SplineCV": ("dampings", (1e-3, 1e-1), (1e-2, 1.0)), "Trend(1)": ("degree", 1, 2), "KNeighbors(2)": ("k", 2, 3),
        "Linear": ("rescale", False, True), "Cubic": ("rescale", False, True), "VectorSpline2D": ("poisson", 0.5, 0.0),
        "VectorSpline2D(force_coords)": ("poisson", 0.5, 0.0),
    }
    if spec in table:
        name, base, other = table[spec]
        est.set_params(**{name: other if alt else base})
    elif spec == "Vector":
        est.components[0].set_params(degree=2 if alt else 1)
    elif spec == "Chain":
        est.steps[0][1].set_params(degree=2 if alt else 1)
    elif spec == "Chain(reduce)":
        est.steps[1][1].set_params(degree=0 if alt else 1)
    else:
        raise ValueError(spec)


# ------------------------------------------------------------------------------------------ catalogue
def _catalogue():
    """name -> (slots dict builder, function(vd, slots) -> result)"""
    import xarray as xr

    e, n, d0, d1 = _pts("a")
    w0 = 1.0 + (np.arange(e.size) % 3) * 0.5
    cat = {}

    def add(name, slots, fn):
        cat[name] = (slots, fn)

    S = lambda **k: {key: np.array(v, dtype=float) for key, v in k.items()}
    add("get_region", S(e=e, n=n), lambda vd, a: vd.get_region((a["e"], a["n"])))
    add("pad_region", S(r=[0, 4, 0, 2]), lambda vd, a: vd.pad_region(a["r"], 0.5))
    add("scatter_points", S(r=[0, 4, 0, 2]), lambda vd, a: vd.scatter_points(a["r"], 5, random_state=3, extra_coords=7))
    add("line_coordinates", {}, lambda vd, a: vd.line_coordinates(0, 10, spacing=2.4, adjust="region"))
    add("grid_coordinates", S(r=[0, 4, 0, 2]), lambda vd, a: vd.grid_coordinates(a["r"], spacing=0.75, pixel_register=True, extra_coords=[1, 2]))
    add("profile_coordinates", {}, lambda vd, a: vd.profile_coordinates((0, 1), (3, 5), 4, extra_coords=2))
    add("inside", S(e=e, n=n, r=[0.5, 3.0, 0.4, 1.5]), lambda vd, a: vd.inside((a["e"], a["n"]), a["r"]))
    add("block_split", S(e=e, n=n), lambda vd, a: vd.block_split((a["e"], a["n"]), spacing=1.0))
    add("block_split(region)", S(e=e, n=n, r=[0, 4, 0, 2]), lambda vd, a: vd.block_split((a["e"], a["n"]), shape=(2, 3), region=a["r"]))
    add("rolling_window", S(e=e, n=n), lambda vd, a: vd.rolling_window((a["e"], a["n"]), size=1.0, spacing=0.5))
    add("expanding_window", S(e=e, n=n, s=[0.5, 2.0, 1.0]), lambda vd, a: vd.expanding_window((a["e"], a["n"]), (2.0, 1.0), a["s"]))
    add("longitude_continuity", S(lon=[0, 90, 350, 180, 270], lat=[-10, 0, 10, 5, -5], r=[350, 10, -10, 10]),
        lambda vd, a: vd.longitude_continuity((a["lon"], a["lat"]), a["r"]))
    add("median_distance", S(e=e, n=n), lambda vd, a: vd.median_distance((a["e"], a["n"]), k_nearest=2))
    add("distance_mask", S(e=e, n=n, qe=PROBE[0], qn=PROBE[1]), lambda vd, a: vd.distance_mask((a["e"], a["n"]), 0.6, coordinates=(a["qe"], a["qn"])))
    add("convexhull_mask", S(e=e, n=n, qe=PROBE[0], qn=PROBE[1]), lambda vd, a: vd.convexhull_mask((a["e"], a["n"]), coordinates=(a["qe"], a["qn"])))
    add("variance_to_weights", S(v=[1.0, np.nan, 0.0, 2.0, 1e-16]), lambda vd, a: vd.variance_to_weights(a["v"]))
    add("variance_to_weights(tuple)", S(v=[1.0, np.nan, 0.0, 2.0], u=[0.5, 4.0, np.nan, 0.0]), lambda vd, a: vd.variance_to_weights((a["v"], a["u"])))
    add("maxabs", S(v=[1.0, -7.0, np.nan], u=[3.0, 2.0]), lambda vd, a: vd.maxabs(a["v"], a["u"]))
    g_e, g_n = np.meshgrid(np.array([0.0, 1.0, 3.0]), np.array([5.0, 6.0]))
    add("make_xarray_grid", S(ge=g_e, gn=g_n, x=g_e * 0 + 3, d=g_e * 10 + g_n),
        lambda vd, a: vd.make_xarray_grid((a["ge"], a["gn"], a["x"]), a["d"], "v", extra_coords_names="up"))
    add("grid_to_table", S(ge=g_e, gn=g_n, d=g_e * 10 + g_n), lambda vd, a: vd.grid_to_table(vd.make_xarray_grid((a["ge"], a["gn"]), a["d"], "v")))
    add("meshgrid_to_1d", S(ge=g_e, gn=g_n), lambda vd, a: vd.utils.meshgrid_to_1d((a["ge"], a["gn"])))
    add("meshgrid_from_1d", S(ge=[0.0, 1.0, 3.0], gn=[5.0, 6.0]), lambda vd, a: vd.utils.meshgrid_from_1d((a["ge"], a["gn"])))
    add("project_region", S(r=[0, 4, 0, 2]), lambda vd, a: vd.project_region(a["r"], lambda x, y: (2 * x, -y)))
    add("project_grid", S(ge=[0.0, 1.0, 2.0, 3.0], gn=[5.0, 6.0, 7.0], d=np.arange(12.0).reshape(3, 4) ** 1.5),
        lambda vd, a: vd.project_grid(xr.DataArray(a["d"], coords={"northing": a["gn"], "easting": a["ge"]}, dims=("northing", "easting"), name="t"),
                                      lambda x, y: (2 * x + 1, 3 * y), method="linear"))
    add("partition_by_sum", S(v=[5, 6, 4, 6, 8, 1, 2, 6, 3, 3]), lambda vd, a: vd.utils.partition_by_sum(a["v"], 3))
    add("n_1d_arrays", S(ge=g_e, gn=g_n), lambda vd, a: vd.base.n_1d_arrays((a["ge"], a["gn"]), 2))
    add("check_fit_input", S(e=e, n=n, d=d0, w=w0), lambda vd, a: vd.base.check_fit_input((a["e"], a["n"]), a["d"], a["w"]))
    add("least_squares(copy)", S(j=np.column_stack([e, n, e * n]), d=d0, w=w0), lambda vd, a: vd.base.least_squares(a["j"], a["d"], a["w"], damping=1e-2, copy_jacobian=True))
    add("BlockReduce.filter", S(e=e, n=n, d=d0, x=d1), lambda vd, a: vd.BlockReduce(np.median, spacing=1.0, drop_coords=False).filter((a["e"], a["n"], a["x"]), a["d"]))
    add("BlockReduce.filter(weights)", S(e=e, n=n, d=d0, w=w0), lambda vd, a: vd.BlockReduce(np.average, shape=(2, 2), center_coordinates=True).filter((a["e"], a["n"]), a["d"], a["w"]))
    add("BlockMean.filter", S(e=e, n=n, d=d0), lambda vd, a: vd.BlockMean(spacing=1.0).filter((a["e"], a["n"]), a["d"]))
    add("BlockMean.filter(weights)", S(e=e, n=n, d=d0, w=w0), lambda vd, a: vd.BlockMean(spacing=1.0).filter((a["e"], a["n"]), a["d"], a["w"]))
    add("BlockMean.filter(uncertainty)", S(e=e, n=n, d=d0, u=d1, w=w0, v=w0[::-1].copy()),
        lambda vd, a: vd.BlockMean(spacing=1.0, uncertainty=True).filter((a["e"], a["n"]), (a["d"], a["u"]), (a["w"], a["v"])))
    add("train_test_split", S(e=e, n=n, d=d0, w=w0), lambda vd, a: vd.train_test_split((a["e"], a["n"]), a["d"], a["w"], random_state=1, test_size=0.3))
    add("train_test_split(blocks)", S(e=e, n=n, d=d0), lambda vd, a: vd.train_test_split((a["e"], a["n"]), a["d"], spacing=1.0, random_state=1, test_size=0.3))
    def cvs_untouched(vd, a):
        out = []
        for est in (vd.Trend(1), vd.VectorSpline2D(mindist=0.5, damping=1e-2), vd.Chain([("t", vd.Trend(1))])):
            vec = isinstance(est, vd.VectorSpline2D)
            before = repr(est.get_params())
            sc = vd.cross_val_score(est, (a["e"], a["n"]), (a["d"], a["d"][::-1].copy()) if vec else a["d"], weights=(a["w"], a["w"]) if vec else a["w"])
            fitted = sorted(k for k in vars(est) if k.endswith("_"))
            if fitted or repr(est.get_params()) != before:
                raise AssertionError("cross_val_score modified the estimator passed in: fitted attributes %s, params %s -> %s" % (fitted, before, repr(est.get_params())))
            out.append(sc)
        return out
    add("cross_val_score", S(e=e, n=n, d=d0, w=w0), cvs_untouched)
    add("BlockKFold.split", S(x=np.column_stack([e, n])), lambda vd, a: [(tr.tolist(), te.tolist()) for tr, te in vd.BlockKFold(spacing=1.0, n_splits=3, shuffle=True, random_state=0).split(a["x"])])
    add("BlockShuffleSplit.split", S(x=np.column_stack([e, n])), lambda vd, a: [(tr.tolist(), te.tolist()) for tr, te in vd.BlockShuffleSplit(spacing=1.0, n_splits=2, random_state=0).split(a["x"])])
    add("CheckerBoard", S(qe=PROBE[0], qn=PROBE[1]), lambda vd, a: (vd.synthetic.CheckerBoard(region=(0, 4, 0, 2)).predict((a["qe"], a["qn"])),
                                                                     vd.synthetic.CheckerBoard(region=(0, 4, 0, 2)).scatter(size=4, random_state=2)))

    def surfer(vd, a):
        txt = "DSAA\n2 3\n1 2\n0 4\n1 6\n1 2 3\n4 5 6\n"
        return vd.load_surfer(io.StringIO(txt))
    add("load_surfer", {}, surfer)
    for name in SPECS:
        vec = name in VECTOR_SPECS

        def est_all(vd, a, name=name, vec=vec):
            with warnings.catch_warnings():
                warnings.simplefilter("ignore")
                est = SPECS[name](vd)
            data = (a["d"], a["u"]) if vec else a["d"]
            wts = None
            if "w" in a:
                wts = (a["w"], a["w2"]) if vec else a["w"]
            est.fit((a["e"], a["n"]), data, wts)
            out = [est.predict((a["qe"], a["qn"]))]
            out.append(est.grid(shape=(3, 4)))
            out.append(est.profile((0.5, 0.5), (3.0, 1.5), 4))
            out.append(est.scatter(size=3, random_state=1))
            out.append(est.score((a["e"], a["n"]), data, wts))
            with warnings.catch_warnings():
                warnings.simplefilter("ignore")
                fresh = SPECS[name](vd)
            out.append(fresh.filter((a["e"], a["n"]), data, wts)[1])
            return out
        slots = S(e=e, n=n, d=d0, qe=PROBE[0][:4], qn=PROBE[1][:4])
        if vec:
            slots["u"] = d1.copy()
        add("estimator:" + name, slots, est_all)
        if name in ("Spline(damping)", "Trend(1)", "VectorSpline2D(force_coords)", "Chain"):
            sl = dict(slots)
            sl["w"] = w0.copy()
            if vec:
                sl["w2"] = w0[::-1].copy()
            add("estimator+weights:" + name, sl, est_all)
    return cat


def _canon(x):
    """Nested canonical form with exact bytes for arrays."""
    import pandas as pd
    import xarray as xr

    if isinstance(x, np.ndarray):
        if x.dtype == object:
            return ("objarr", x.shape, tuple(_canon(v) for v in x.ravel()))
        return ("arr", str(x.dtype), x.shape, np.ascontiguousarray(x).tobytes())
    if isinstance(x, (list, tuple)):
        return (type(x).__name__,) + tuple(_canon(v) for v in x)
    if isinstance(x, dict):
        return ("dict",) + tuple((k, _canon(v)) for k, v in sorted(x.items()))
    if isinstance(x, pd.DataFrame):
        return ("df", tuple(x.columns), tuple(_canon(x[c].values) for c in x.columns))
    if isinstance(x, pd.Series):
        return ("series", _canon(x.values))
    if isinstance(x, xr.Dataset):
        return ("ds", tuple((k, _canon(x[k].values), tuple(x[k].dims)) for k in x.data_vars), tuple((k, _canon(x.coords[k].values)) for k in x.coords),
                tuple(sorted((k, str(v)) for k, v in x.attrs.items())))
    if isinstance(x, xr.DataArray):
        return ("da", x.name, _canon(x.values), tuple(x.dims), tuple((k, _canon(x.coords[k].values)) for k in x.coords))
    if isinstance(x, (np.generic,)):
        return ("scalar", str(x.dtype), x.tobytes())
    if isinstance(x, float):
        return ("float", np.float64(x).tobytes())
    return ("obj", repr(x))


def _approx(a, b, depth=0):
    """Structural equality with round-off tolerance for floating point buffers (used where only the memory layout of an argument
    differs: reductions over strided memory may legitimately round differently)."""
    import pandas as pd
    import xarray as xr

    if depth > 8:
        return True
    if isinstance(a, (pd.DataFrame,)):
        return isinstance(b, pd.DataFrame) and list(a.columns) == list(b.columns) and all(_approx(a[c].values, b[c].values, depth + 1) for c in a.columns)
    if isinstance(a, pd.Series):
        return isinstance(b, pd.Series) and _approx(a.values, b.values, depth + 1)
    if isinstance(a, xr.Dataset):
        return (isinstance(b, xr.Dataset) and list(a.data_vars) == list(b.data_vars) and set(a.coords) == set(b.coords)
                and all(_approx(a[k].values, b[k].values, depth + 1) and a[k].dims == b[k].dims for k in list(a.data_vars) + list(a.coords))
                and {k: str(v) for k, v in a.attrs.items()} == {k: str(v) for k, v in b.attrs.items()})
    if isinstance(a, xr.DataArray):
        return isinstance(b, xr.DataArray) and a.name == b.name and a.dims == b.dims and _approx(a.values, b.values, depth + 1)
    if isinstance(a, (list, tuple)):
        return type(a) is type(b) and len(a) == len(b) and all(_approx(x, y, depth + 1) for x, y in zip(a, b))
    if isinstance(a, dict):
        return isinstance(b, dict) and a.keys() == b.keys() and all(_approx(a[k], b[k], depth + 1) for k in a)
    if isinstance(a, np.ndarray) or isinstance(a, (np.generic, float)):
        a_, b_ = np.asarray(a), np.asarray(b)
        if a_.dtype == object or b_.dtype == object:
            return a_.shape == b_.shape and all(_approx(x, y, depth + 1) for x, y in zip(a_.ravel(), b_.ravel()))
        if a_.shape != b_.shape or a_.dtype != b_.dtype:
            return False
        if a_.dtype.kind == "f":
            scale = float(np.nanmax(np.abs(a_))) if a_.size and np.isfinite(a_).any() else 1.0
            return bool(np.allclose(a_, b_, rtol=1e-9, atol=1e-9 * max(scale, 1e-300), equal_nan=True))
        return bool(np.array_equal(a_, b_))
    return _canon(a) == _canon(b)


def _scribble(x, depth=0):
    """Overwrite, in place, every writeable numpy buffer reachable from a returned value (what a caller may legitimately do with
    arrays it received).  A later call must not be affected (seed C08-r2_2: a memoised helper handing out its cached array)."""
    import pandas as pd
    import xarray as xr

    if depth > 6:
        return
    if isinstance(x, np.ndarray):
        if x.dtype == object:
            for v in x.ravel():
                _scribble(v, depth + 1)
        elif x.flags.writeable and x.size:
            try:
                x[...] = 77 if x.dtype != bool else True
            except Exception:  # noqa: BLE001
                pass
    elif isinstance(x, (list, tuple)):
        for v in x:
            _scribble(v, depth + 1)
    elif isinstance(x, dict):
        for v in x.values():
            _scribble(v, depth + 1)
    elif isinstance(x, (xr.Dataset,)):
        for k in list(x.data_vars) + list(x.coords):
            try:
                _scribble(x[k].values, depth + 1)
            except Exception:  # noqa: BLE001
                pass
    elif isinstance(x, xr.DataArray):
        _scribble(x.values, depth + 1)
        for k in x.coords:
            _scribble(x.coords[k].values, depth + 1)
    elif isinstance(x, pd.DataFrame):
        for c in x.columns:
            try:
                _scribble(x[c].to_numpy(copy=False), depth + 1)
            except Exception:  # noqa: BLE001
                pass


def _families(vd):
    """Groups of calls to the same function that differ in ONE option; used to look for interference between calls
    (state shared across calls: caches keyed on too little, module-level scratch buffers).  Seed C09-r2_1."""
    e, n, d0, d1 = _pts("a")
    F = {}
    F["block_split"] = [lambda a=a, kw=kw: vd.block_split((e, n), region=(0, 4, 0, 2), **kw) for a, kw in enumerate(
        [dict(spacing=0.9, adjust="spacing"), dict(spacing=0.9, adjust="region"), dict(shape=(2, 4)), dict(spacing=(0.9, 1.3)), dict(spacing=(1.3, 0.9))])]
    F["block_split(inferred)"] = [lambda kw=kw: vd.block_split((e, n), **kw) for kw in
                                  [dict(spacing=0.7, adjust="spacing"), dict(spacing=0.7, adjust="region"), dict(shape=(2, 3))]]
    F["grid_coordinates"] = [lambda kw=kw: vd.grid_coordinates((0, 5, 0, 10), **kw) for kw in
                             [dict(spacing=2.4), dict(spacing=2.4, adjust="region"), dict(spacing=2.4, pixel_register=True), dict(shape=(5, 3)),
                              dict(shape=(5, 3), pixel_register=True), dict(spacing=2.4, extra_coords=3), dict(spacing=2.4, meshgrid=False)]]
    F["line_coordinates"] = [lambda kw=kw: vd.line_coordinates(0, 10, **kw) for kw in
                             [dict(spacing=2.4), dict(spacing=2.4, adjust="region"), dict(spacing=2.4, pixel_register=True), dict(size=5), dict(size=5, pixel_register=True)]]
    F["rolling_window"] = [lambda kw=kw: vd.rolling_window((e, n), size=1.0, **kw) for kw in
                           [dict(spacing=0.7), dict(spacing=0.7, adjust="region"), dict(shape=(2, 3)), dict(spacing=0.7, region=(0.5, 3.5, 0.25, 1.75))]]
    F["expanding_window"] = [lambda a=a: vd.expanding_window((e, n), a[0], a[1]) for a in
                             [((2.0, 1.0), [0.5, 2.0]), ((2.0, 1.0), [2.0, 0.5]), ((1.0, 0.5), [0.5, 2.0]), ((2.0, 1.0), [1.0])]]
    F["BlockReduce.filter"] = [lambda kw=kw: vd.BlockReduce(np.median, **kw).filter((e, n), d0) for kw in
                               [dict(spacing=0.9), dict(spacing=0.9, adjust="region"), dict(spacing=0.9, center_coordinates=True), dict(shape=(2, 3)),
                                dict(spacing=0.9, region=(0, 4, 0, 2))]]
    F["BlockMean.filter"] = [lambda kw=kw: vd.BlockMean(**kw).filter((e, n), d0) for kw in
                             [dict(spacing=0.9), dict(spacing=0.9, adjust="region"), dict(shape=(2, 3)), dict(spacing=0.9, center_coordinates=True)]]
    F["polynomial_power_combinations"] = [lambda k=k: vd.trend.polynomial_power_combinations(k) for k in (0, 1, 2, 3)]
    F["Trend.jacobian"] = [lambda k=k: vd.Trend(k).jacobian((e, n)) for k in (0, 1, 2, 3)]
    F["Trend.fit.predict"] = [lambda k=k: vd.Trend(k).fit((e, n), d0).predict(PROBE) for k in (0, 1, 2)]
    F["Spline.jacobian"] = [lambda m=m: vd.Spline(mindist=m).jacobian((e, n), (e[:4], n[:4])) for m in (None, 0.1, 2.0)]
    F["Spline.fit.predict"] = [lambda kw=kw: vd.Spline(**kw).fit((e, n), d0).predict(PROBE) for kw in [dict(), dict(damping=1e-2), dict(mindist=0.5), dict(damping=1.0)]]
    F["VectorSpline2D.fit.predict"] = [lambda kw=kw: vd.VectorSpline2D(mindist=0.5, **kw).fit((e, n), (d0, d1)).predict(PROBE) for kw in
                                       [dict(), dict(poisson=0.0), dict(damping=1e-2), dict(poisson=-1.0)]]
    F["KNeighbors.fit.predict"] = [lambda kw=kw: vd.KNeighbors(**kw).fit((e, n), d0).predict(PROBE) for kw in [dict(k=1), dict(k=3), dict(k=3, reduction=np.median)]]
    F["CheckerBoard.predict"] = [lambda kw=kw: vd.synthetic.CheckerBoard(**kw).predict(PROBE) for kw in
                                 [dict(), dict(region=(0, 4, 0, 2)), dict(region=(0, 4, 0, 2), w_east=1.0), dict(region=(0, 4, 0, 2), w_north=3.0)]]
    F["variance_to_weights"] = [lambda kw=kw: vd.variance_to_weights(np.array([1e-4, 0.5, 2.0, 0.0]), **kw) for kw in [dict(), dict(tol=1e-3), dict(tol=1.0)]]
    F["scatter_points"] = [lambda a=a: vd.scatter_points(*a[0], **a[1]) for a in
                           [(((0, 4, 0, 2), 5), dict(random_state=0)), (((0, 4, 0, 2), 5), dict(random_state=1)), (((0, 8, 0, 2), 5), dict(random_state=0)),
                            (((0, 4, 0, 2), 5), dict(random_state=0, extra_coords=2))]]
    F["longitude_continuity"] = [lambda r=r: vd.longitude_continuity((np.array([0.0, 90, 350, 180, 270]), np.array([-10.0, 0, 10, 5, -5])), r) for r in
                                 ([350, 10, -10, 10], [0, 20, -10, 10], [-20, 20, -10, 10], [0, 360, -10, 10])]
    F["distance_mask"] = [lambda kw=kw: vd.distance_mask((e, n), coordinates=PROBE, **kw) for kw in
                          [dict(maxdist=0.6), dict(maxdist=1.2), dict(maxdist=0.6, projection=lambda x, y: (2 * x, 3 * y))]]
    F["convexhull_mask"] = [lambda a=a: vd.convexhull_mask(a, coordinates=PROBE) for a in [(e, n), (e[:6], n[:6]), (e * 2, n + 1)]]
    F["make_xarray_grid"] = [lambda kw=kw: vd.make_xarray_grid(np.meshgrid(np.array([0.0, 1, 3]), np.array([5.0, 6])), np.arange(6.0).reshape(2, 3), "v", **kw)
                             for kw in [dict(), dict(dims=("lat", "lon"))]]
    return F


def cases(tier, seed):
    for name in _catalogue():
        yield dict(kind="catalogue", name=name)
    for fam in _families(None if False else _Dummy()):
        yield dict(kind="interference", family=fam)
    for name in SPECS:
        yield dict(kind="history", spec=name, depth=3 if tier == "quick" else 4)
    for name in OBJ_SPECS:
        yield dict(kind="objhistory", spec=name, depth=3 if tier == "quick" else 4)
    for name in _invalid_list():
        yield dict(kind="invalid", name=name)
    for name in SPECS:
        yield dict(kind="unfitted", spec=name)


RULE = RULE % (len(_catalogue()) if False else 60, len(SPECS), 60)


def bounds(tier, seed):
    return dict(catalogue_templates=len(_catalogue()), estimator_specs=sorted(SPECS), events=EVENTS, depth=3 if tier == "quick" else 4,
                inconsistencies=len(_invalid_list()))


# ------------------------------------------------------------------------------------------ histories
def _dataset_args(which, vec):
    e, n, d0, d1 = _pts(which)
    e, n, d0, d1 = e.copy(), n.copy(), d0.copy(), d1.copy()
    data = (d0, d1) if vec else d0
    return (e, n), data


class Driver:
    """Replays a history on a fresh estimator; owns the arrays it passes (so that it can overwrite them)."""

    def __init__(self, vd, spec):
        self.vd, self.spec, self.vec = vd, spec, spec in VECTOR_SPECS
        with warnings.catch_warnings():
            warnings.simplefilter("ignore")
            self.est = SPECS[spec](vd)
        self.owned = []
        self.last = None
        self.first = None
        self.pset = "base"
        self.fitted_pset = None
        self.errors = []

    def apply(self, ev):
        from sklearn.base import clone
        est = self.est
        with warnings.catch_warnings():
            warnings.simplefilter("ignore")
            if ev.startswith("fit_") or ev.startswith("filter_"):
                which = ev[-1]
                coords, data = _dataset_args(which, self.vec)
                self.owned += list(coords) + (list(data) if isinstance(data, tuple) else [data])
                if ev.startswith("fit_"):
                    r = est.fit(coords, data)
                    if r is not est:
                        self.errors.append("fit did not return self")
                else:
                    est.filter(coords, data)
                self.last = which
                self.fitted_pset = self.pset
                if self.first is None:
                    self.first = which
            elif ev in ("alt", "base"):
                # parameters that differ from those of the last fit make predictions undefined until the next fit ("stale")
                _set_alt(self.spec, est, ev == "alt")
                self.pset = ev
            elif self.stale and ev in OBSERVERS:
                try:
                    self._observe(ev)
                except Exception:  # noqa: BLE001
                    pass
            elif ev in ("score", "scatter", "profile"):
                # further observers (round 8): none of them may change the state; before fitting they must raise
                if self.last is None:
                    try:
                        self._observe(ev)
                        self.errors.append("%s before fit did not raise" % ev)
                    except Exception:  # noqa: BLE001
                        pass
                else:
                    self._observe(ev)
            elif ev == "predict":
                if self.last is None:
                    try:
                        est.predict(PROBE)
                        self.errors.append("predict before fit did not raise")
                    except Exception:  # noqa: BLE001
                        pass
                else:
                    est.predict(PROBE)
            elif ev == "grid":
                if self.last is None:
                    try:
                        est.grid(shape=(2, 2), region=(0, 1, 0, 1))
                        self.errors.append("grid before fit did not raise")
                    except Exception:  # noqa: BLE001
                        pass
                else:
                    est.grid(shape=(3, 3))
            elif ev == "clone":
                self.est = clone(est)
                self.last = None
                self.fitted_pset = None
            elif ev == "params":
                est.set_params(**est.get_params())
            elif ev == "overwrite":
                for a in self.owned:
                    a[...] = 1e9
            else:
                raise ValueError(ev)

    def _observe(self, ev):
        est = self.est
        if ev == "predict":
            return est.predict(PROBE)
        if ev == "grid":
            return est.grid(shape=(3, 3)) if self.last is not None else est.grid(shape=(2, 2), region=(0, 1, 0, 1))
        if ev == "score":
            # scored on the dataset of the last fit (inside the hull for Linear / Cubic, whose NaNs scikit-learn's metrics refuse)
            coords, data = _dataset_args(self.last or "b", self.vec)
            return est.score(coords, data)
        if ev == "scatter":
            return est.scatter(region=(0, 3, 0, 2), size=4, random_state=1)
        if ev == "profile":
            return est.profile((0, 0), (3, 2), 4)
        raise ValueError(ev)

    @property
    def stale(self):
        return self.last is not None and self.fitted_pset != self.pset

    def abstract(self):
        return (self.last, self.first if self.spec == "VectorSpline2D" else None, self.pset, self.fitted_pset)

    def fingerprint(self):
        est = self.est
        fp = [repr(sorted((k, _short(v)) for k, v in est.get_params().items()))]
        if self.stale:
            fp.append("stale")
            return fp
        if self.last is None:
            fp.append("unfitted")
            fp.append(sorted(a for a in vars(est) if a.endswith("_") and not a.startswith("_")))
            return fp
        with warnings.catch_warnings():
            warnings.simplefilter("ignore")
            p = est.predict(PROBE)
        comps = list(p) if isinstance(p, tuple) else [p]
        fp.append([[None if np.isnan(v) else float("%.9g" % v) for v in np.asarray(c).ravel()] for c in comps])
        fp.append([float(v) for v in est.region_])
        return fp


def _short(v):
    if isinstance(v, (tuple, list)) and v and isinstance(v[0], np.ndarray):
        return [np.round(np.asarray(a, dtype=float), 9).tolist() for a in v]
    if isinstance(v, np.ndarray):
        return np.round(v, 9).tolist()
    return repr(v)


def _replay(vd, spec, hist):
    d = Driver(vd, spec)
    for ev in hist:
        d.apply(ev)
    return d


def _canonical_history(spec, abstract):
    """Shortest history with the same abstract state: [fit(first)] (VectorSpline2D's documented memory), switch to the parameter set of
    the last fit, fit(last), switch to the current parameter set."""
    last, first, pset, fitted_pset = abstract
    h = []
    if first is not None and first != last:
        h.append("fit_" + first)
    if first is not None and last is None:
        h.append("clone")
    if last is not None:
        if fitted_pset == "alt":
            h.append("alt")
        h.append("fit_" + last)
        if pset != fitted_pset:
            h.append(pset)
    elif pset == "alt":
        h.append("alt")
    return h


class _Dummy:
    def __getattr__(self, k):
        return _Dummy()

    def __call__(self, *a, **k):
        return _Dummy()


# ------------------------------------------------------------------------------------------ histories of parameter-only objects
# Reducers, cross-validators and the synthetic model keep NO fitted state: whatever was called before on the same instance, a call must
# return what a fresh instance with the current parameters returns for the same arguments (round 8).
def _obj_specs(vd):
    return {
        "BlockReduce(median)": (lambda: vd.BlockReduce(np.median, spacing=0.9), ("spacing", 0.9, 1.3), "filter"),
        "BlockReduce(mean, shape, centres)": (lambda: vd.BlockReduce(np.mean, shape=(2, 3), center_coordinates=True), ("center_coordinates", True, False), "filter"),
        "BlockReduce(average, region)": (lambda: vd.BlockReduce(np.average, spacing=1.1, region=(-3, 14, -6, 9), adjust="region"), ("adjust", "region", "spacing"), "filterw"),
        "BlockMean": (lambda: vd.BlockMean(spacing=0.9), ("spacing", 0.9, 1.3), "filter"),
        "BlockMean(weights)": (lambda: vd.BlockMean(spacing=0.9, uncertainty=False), ("uncertainty", False, True), "filterw"),
        "BlockKFold": (lambda: vd.BlockKFold(spacing=1.0, n_splits=2, shuffle=True, random_state=0), ("n_splits", 2, 3), "split"),
        "BlockKFold(no shuffle)": (lambda: vd.BlockKFold(shape=(2, 3), n_splits=2, balance=False), ("balance", False, True), "split"),
        "BlockShuffleSplit": (lambda: vd.BlockShuffleSplit(spacing=1.0, n_splits=2, test_size=0.3, random_state=0), ("test_size", 0.3, 0.5), "split"),
        "CheckerBoard": (lambda: vd.synthetic.CheckerBoard(region=(0, 4, 0, 2)), ("w_east", None, 1.0), "synthetic"),
    }


OBJ_SPECS = sorted(_obj_specs(_Dummy()))
OBJ_EVENTS = ["call_a", "call_b", "call_c", "again", "interleave", "alt", "base", "clone", "params", "overwrite"]


def _obj_call(obj, how, which, owned=None, keep=None, arrays=None):
    if arrays is not None:
        e, n, d0, d1, w, X = arrays
    else:
        e, n, d0, d1 = _pts(which)
        e, n, d0, d1 = e.copy(), n.copy(), d0.copy(), d1.copy()
        w = 1.0 + (np.arange(e.size).reshape(e.shape) % 3) * 0.5
        X = np.column_stack([e.ravel(), n.ravel()])
    if keep is not None:
        keep[:] = [which, (e, n, d0, d1, w, X)]
    if owned is not None and arrays is None:
        owned += [e, n, d0, d1, w]
    if how == "filter":
        out = obj.filter((e, n), (d0, d1) if which == "b" else d0)
    elif how == "filterw":
        out = obj.filter((e, n), d0, w)
    elif how == "split":
        out = [(tr.copy(), te.copy()) for tr, te in obj.split(X)]
    else:
        out = (obj.predict((e, n)), obj.grid(shape=(3, 4)) if which != "c" else obj.scatter(size=4, random_state=2), obj.profile((0, 0), (3, 1), 4) if which == "b" else None)
    if owned is not None:
        owned.append(out)
    return out


def _invalid_list():
    return list(_invalid_table(None).keys())


def _invalid_table(vd):
    e, n, d0, d1 = _pts("a")
    w0 = np.ones(e.size)
    T = {}
    if vd is None:
        class _D:
            def __getattr__(self, k):
                return _D()
            def __call__(self, *a, **k):
                return _D()
        vd = _D()
    gridders = {
        "Spline": lambda: vd.Spline(damping=1e-2), "Trend": lambda: vd.Trend(1), "KNeighbors": lambda: vd.KNeighbors(), "Linear": lambda: vd.Linear(),
        "Cubic": lambda: vd.Cubic(), "SplineCV": lambda: vd.SplineCV(dampings=(1e-2,)),
        "Chain": lambda: vd.Chain([("t", vd.Trend(1))]),
    }
    for g, mk in gridders.items():
        T["%s.fit: northing shorter" % g] = lambda mk=mk: mk().fit((e, n[:-1]), d0)
        T["%s.fit: data shorter" % g] = lambda mk=mk: mk().fit((e, n), d0[:-1])
        T["%s.fit: data 2-D vs 1-D coordinates" % g] = lambda mk=mk: mk().fit((e, n), d0.reshape(2, -1))
        T["%s.fit: weights shorter" % g] = lambda mk=mk: mk().fit((e, n), d0, w0[:-1])
        T["%s.fit: extra coordinate of another shape" % g] = lambda mk=mk: mk().fit((e, n, e[:-2]), d0)
    vecs = {"VectorSpline2D": lambda: vd.VectorSpline2D(mindist=0.5, damping=1e-2), "Vector": lambda: vd.Vector([vd.Trend(1), vd.Trend(1)])}
    for g, mk in vecs.items():
        T["%s.fit: second component shorter" % g] = lambda mk=mk: mk().fit((e, n), (d0, d1[:-1]))
        T["%s.fit: one weight array for two components" % g] = lambda mk=mk: mk().fit((e, n), (d0, d1), (w0,))
        T["%s.fit: weights component shorter" % g] = lambda mk=mk: mk().fit((e, n), (d0, d1), (w0, w0[:-1]))
        T["%s.fit: coordinates mismatch" % g] = lambda mk=mk: mk().fit((e[:-1], n), (d0, d1))
    T["Vector.fit: data not a tuple"] = lambda: vd.Vector([vd.Trend(1)]).fit((e, n), d0)
    T["Vector.fit: weights not a tuple"] = lambda: vd.Vector([vd.Trend(1), vd.Trend(1)]).fit((e, n), (d0, d1), w0)
    T["VectorSpline2D.fit: one component"] = lambda: vd.VectorSpline2D(mindist=0.5).fit((e, n), (d0,))
    T["VectorSpline2D.fit: three components"] = lambda: vd.VectorSpline2D(mindist=0.5).fit((e, n), (d0, d1, d0))
    fitted = lambda: vd.Trend(1).fit((e, n), d0)
    T["grid: both shape and spacing"] = lambda: fitted().grid(shape=(3, 3), spacing=0.5)
    T["grid: neither shape nor spacing"] = lambda: fitted().grid()
    T["grid: coordinates and shape"] = lambda: fitted().grid(coordinates=(np.arange(3.0), np.arange(2.0)), shape=(2, 3))
    T["grid: coordinates and region"] = lambda: fitted().grid(coordinates=(np.arange(3.0), np.arange(2.0)), region=(0, 1, 0, 1))
    T["grid: data_names count"] = lambda: fitted().grid(shape=(2, 2), data_names=["a", "b"])
    T["grid: region W>E"] = lambda: fitted().grid(shape=(2, 2), region=(4, 0, 0, 2))
    T["grid: region S>N"] = lambda: fitted().grid(shape=(2, 2), region=(0, 4, 2, 0))
    T["grid: region of 3 values"] = lambda: fitted().grid(shape=(2, 2), region=(0, 4, 2))
    T["grid: 1-D easting with 2-D northing"] = lambda: fitted().grid(coordinates=(np.arange(3.0), np.zeros((2, 3))))
    T["scatter: region W>E"] = lambda: fitted().scatter(region=(4, 0, 0, 2), size=3)
    T["profile: size 0"] = lambda: fitted().profile((0, 0), (1, 1), 0)
    T["profile: data_names count"] = lambda: fitted().profile((0, 0), (1, 1), 3, data_names=["a", "b"])
    T["grid_coordinates: both"] = lambda: vd.grid_coordinates((0, 1, 0, 1), shape=(2, 2), spacing=0.5)
    T["grid_coordinates: neither"] = lambda: vd.grid_coordinates((0, 1, 0, 1))
    T["line_coordinates: both"] = lambda: vd.line_coordinates(0, 1, size=3, spacing=0.5)
    T["line_coordinates: neither"] = lambda: vd.line_coordinates(0, 1)
    T["block_split: coordinate shapes"] = lambda: vd.block_split((e, n[:-1]), spacing=1.0)
    T["block_split: both shape and spacing"] = lambda: vd.block_split((e, n), spacing=1.0, shape=(2, 2))
    T["block_split: neither"] = lambda: vd.block_split((e, n))
    T["rolling_window: coordinate shapes"] = lambda: vd.rolling_window((e, n[:-1]), size=1.0, spacing=0.5)
    T["rolling_window: neither shape nor spacing"] = lambda: vd.rolling_window((e, n), size=1.0)
    T["rolling_window: both shape and spacing"] = lambda: vd.rolling_window((e, n), size=1.0, spacing=0.5, shape=(2, 2))
    T["rolling_window: both shape and spacing (adjust=region)"] = lambda: vd.rolling_window((e, n), size=1.0, spacing=0.5, shape=(2, 2), adjust="region")
    T["rolling_window: region W>E"] = lambda: vd.rolling_window((e, n), size=0.5, spacing=0.5, region=(4, 0, 0, 2))
    T["BlockReduce.filter: both shape and spacing"] = lambda: vd.BlockReduce(np.mean, spacing=1.0, shape=(2, 2)).filter((e, n), d0)
    T["BlockMean.filter: both shape and spacing"] = lambda: vd.BlockMean(spacing=1.0, shape=(2, 2)).filter((e, n), d0)
    T["BlockMean.filter: neither shape nor spacing"] = lambda: vd.BlockMean().filter((e, n), d0)
    T["BlockKFold.split: both shape and spacing"] = lambda: list(vd.BlockKFold(spacing=1.0, shape=(2, 2), n_splits=2).split(np.column_stack([e, n])))
    T["BlockShuffleSplit.split: both shape and spacing"] = lambda: list(vd.BlockShuffleSplit(spacing=1.0, shape=(2, 2), n_splits=2, random_state=0).split(np.column_stack([e, n])))
    T["BlockShuffleSplit: neither shape nor spacing"] = lambda: vd.BlockShuffleSplit()
    T["train_test_split: both shape and spacing"] = lambda: vd.train_test_split((e, n), d0, random_state=0, spacing=1.0, shape=(2, 2))
    T["block_split: region W>E"] = lambda: vd.block_split((e, n), spacing=1.0, region=(4, 0, 0, 2))
    T["grid_coordinates: region S>N"] = lambda: vd.grid_coordinates((0, 1, 2, 0), shape=(2, 2))
    T["scatter_points: region W>E"] = lambda: vd.scatter_points((4, 0, 0, 2), size=3, random_state=0)
    # regions inverted by a few metres at projected-coordinate magnitudes (relative 1e-6: below numpy's default closeness tolerances)
    utm_bad_w = (500003.0, 500000.0, 7200000.0, 7200500.0)
    utm_bad_s = (500000.0, 500400.0, 7200002.5, 7200000.0)
    for nm_, rg_ in (("W>E", utm_bad_w), ("S>N", utm_bad_s)):
        T["grid_coordinates: UTM region slightly inverted %s" % nm_] = lambda rg_=rg_: vd.grid_coordinates(rg_, shape=(3, 3))
        T["scatter_points: UTM region slightly inverted %s" % nm_] = lambda rg_=rg_: vd.scatter_points(rg_, size=3, random_state=0)
        T["inside: UTM region slightly inverted %s" % nm_] = lambda rg_=rg_: vd.inside((e + 500000.0, n + 7200000.0), rg_)
        T["block_split: UTM region slightly inverted %s" % nm_] = lambda rg_=rg_: vd.block_split((e + 500000.0, n + 7200000.0), spacing=1.0, region=rg_)
        T["grid: UTM region slightly inverted %s" % nm_] = lambda rg_=rg_: fitted().grid(region=rg_, shape=(2, 2))
        T["CheckerBoard: UTM region slightly inverted %s" % nm_] = lambda rg_=rg_: vd.synthetic.CheckerBoard(region=rg_).grid(shape=(2, 2))
    T["inside: region of 5 values"] = lambda: vd.inside((e, n), (0, 1, 0, 1, 2))
    # (pad_region is not in this table: it only adds the padding to the four numbers it is given - nothing is aligned or guessed from
    # an inverted region, and every consumer of the result rejects it)
    # a THIRD array that disagrees (more data components than coordinates; an extra coordinate of another shape): seeds C20-11 / C20-12
    T["check_fit_input: third data component longer"] = lambda: vd.base.utils.check_fit_input((e, n), (d0, d1, np.concatenate([d0, d0[:1]])), None)
    T["train_test_split: third data component longer"] = lambda: vd.train_test_split((e, n), (d0, d1, np.concatenate([d0, d0[:1]])), random_state=0)
    T["train_test_split (blocked): third data component longer"] = lambda: vd.train_test_split((e, n), (d0, d1, np.concatenate([d0, d0[:1]])), random_state=0, spacing=1.0)
    T["Vector.fit: third data component longer"] = lambda: vd.Vector([vd.Trend(1), vd.Trend(1), vd.Trend(0)]).fit((e, n), (d0, d1, np.concatenate([d0, d0[:1]])))
    T["BlockReduce.filter: third data component longer"] = lambda: vd.BlockReduce(np.mean, spacing=1.0).filter((e, n), (d0, d1, np.concatenate([d0, d0[:1]])))
    T["Trend.fit: third weight component longer"] = lambda: vd.Vector([vd.Trend(1), vd.Trend(1), vd.Trend(0)]).fit((e, n), (d0, d1, d0), (w0, w0, np.concatenate([w0, w0[:1]])))
    T["rolling_window: extra coordinate of another shape"] = lambda: vd.rolling_window((e, n, e[:-2]), size=1.0, spacing=0.5)
    T["expanding_window: extra coordinate of another shape"] = lambda: vd.expanding_window((e, n, e[:-2]), (1.0, 1.0), [1.0])
    T["block_split: extra coordinate of another shape"] = lambda: vd.block_split((e, n, e[:-2]), spacing=1.0)
    T["inside: northing of another shape"] = lambda: vd.inside((e, n[:-1]), (0, 1, 0, 1))
    T["get_region-free: distance_mask data coordinate shapes"] = lambda: vd.distance_mask((e, n[:-1]), 1.0, coordinates=(np.zeros((2, 2)), np.zeros((2, 2))))
    T["median_distance: coordinate shapes"] = lambda: vd.median_distance((e, n[:-1]))
    T["expanding_window: coordinate shapes"] = lambda: vd.expanding_window((e, n[:-1]), (1.0, 1.0), [1.0])
    T["BlockReduce.filter: data shorter"] = lambda: vd.BlockReduce(np.mean, spacing=1.0).filter((e, n), d0[:-1])
    T["BlockReduce.filter: weights shorter"] = lambda: vd.BlockReduce(np.average, spacing=1.0).filter((e, n), d0, w0[:-1])
    T["BlockReduce.filter: weight components"] = lambda: vd.BlockReduce(np.average, spacing=1.0).filter((e, n), (d0, d1), (w0,))
    # a coordinate array of ONE element next to arrays of many (round 9, seed C20-17: a point matrix filled column by column, which
    # broadcasts the single value instead of refusing it)
    T["distance_mask: one-element northing for the data"] = lambda: vd.distance_mask((e, n[:1]), 1.0, coordinates=PROBE)
    T["distance_mask: one-element northing for the query"] = lambda: vd.distance_mask((e, n), 1.0, coordinates=(PROBE[0], PROBE[1][:1]))
    T["KNeighbors.predict: one-element northing"] = lambda: vd.KNeighbors().fit((e, n), d0).predict((PROBE[0], PROBE[1][:1]))
    T["KNeighbors.fit: one-element northing"] = lambda: vd.KNeighbors().fit((e, n[:1]), d0)
    T["median_distance: one-element northing"] = lambda: vd.median_distance((e, n[:1]))
    T["kdtree: one-element northing"] = lambda: vd.utils.kdtree((e, n[:1]))
    T["block_split: one-element northing"] = lambda: vd.block_split((e, n[:1]), spacing=1.0)
    T["rolling_window: one-element northing"] = lambda: vd.rolling_window((e, n[:1]), size=1.0, spacing=0.5)
    T["expanding_window: one-element northing"] = lambda: vd.expanding_window((e, n[:1]), (1.0, 1.0), [1.0])
    T["convexhull_mask: one-element northing for the data"] = lambda: vd.convexhull_mask((e, n[:1]), coordinates=PROBE)
    # a weights tuple that mixes arrays and None (round 8, seed C20-16: "no weights" decided by any() instead of all())
    T["Vector.fit: weights (array, None)"] = lambda: vd.Vector([vd.Trend(1), vd.Trend(1)]).fit((e, n), (d0, d1), (w0, None))
    T["VectorSpline2D.fit: weights (None, array)"] = lambda: vd.VectorSpline2D(mindist=0.5, damping=1e-2).fit((e, n), (d0, d1), (None, w0))
    T["check_fit_input: weights (array, None)"] = lambda: vd.base.utils.check_fit_input((e, n), (d0, d1), (w0, None))
    T["check_fit_input: weights (array, None) for one component"] = lambda: vd.base.utils.check_fit_input((e, n), d0, (w0, None))
    T["BlockReduce.filter: weights (array, None)"] = lambda: vd.BlockReduce(np.average, spacing=1.0).filter((e, n), (d0, d1), (w0, None))
    T["BlockMean.filter: weights (None, array)"] = lambda: vd.BlockMean(spacing=1.0).filter((e, n), (d0, d1), (None, w0))
    T["train_test_split: weights (array, None)"] = lambda: vd.train_test_split((e, n), (d0, d1), (w0, None), random_state=0)
    T["cross_val_score: weights (array, None)"] = lambda: vd.cross_val_score(vd.Vector([vd.Trend(1), vd.Trend(1)]), (e, n), (d0, d1), weights=(w0, None))
    T["BlockReduce.filter: neither shape nor spacing"] = lambda: vd.BlockReduce(np.mean).filter((e, n), d0)
    T["BlockMean.filter: data shorter"] = lambda: vd.BlockMean(spacing=1.0).filter((e, n), d0[:-1])
    T["BlockMean.filter: uncertainty without weights"] = lambda: vd.BlockMean(spacing=1.0, uncertainty=True).filter((e, n), d0)
    T["BlockKFold: neither shape nor spacing"] = lambda: vd.BlockKFold()
    T["BlockKFold: n_splits 1"] = lambda: vd.BlockKFold(spacing=1.0, n_splits=1)
    T["BlockShuffleSplit: balancing 0"] = lambda: vd.BlockShuffleSplit(spacing=1.0, balancing=0)
    T["BlockKFold.split: 3 columns"] = lambda: list(vd.BlockKFold(spacing=1.0, n_splits=2).split(np.column_stack([e, n, e])))
    T["train_test_split: data shorter"] = lambda: vd.train_test_split((e, n), d0[:-1], random_state=0)
    T["train_test_split: weights shorter"] = lambda: vd.train_test_split((e, n), d0, w0[:-1], random_state=0)
    T["cross_val_score: data shorter"] = lambda: vd.cross_val_score(vd.Trend(1), (e, n), d0[:-1])
    T["cross_val_score: weights shorter"] = lambda: vd.cross_val_score(vd.Trend(1), (e, n), d0, weights=w0[:-1])
    T["score: data shorter"] = lambda: fitted().score((e, n), d0[:-1])
    T["make_xarray_grid: names"] = lambda: vd.make_xarray_grid(np.meshgrid(np.arange(3.0), np.arange(2.0)), (np.zeros((2, 3)), np.ones((2, 3))), ["a"])
    T["distance_mask: coordinate shapes"] = lambda: vd.distance_mask((e, n), 1.0, coordinates=(np.zeros((2, 2)), np.zeros((3, 2))))
    T["convexhull_mask: nothing to mask"] = lambda: vd.convexhull_mask((e, n))
    # geographic regions with ONE bound out of range while the other one hides it from a min / max shortcut (seed C20-14)
    for nm_, rg_ in (("W > 360, E small", [361.0, 10.0, -10.0, 10.0]), ("E < -180, W large", [170.0, -190.0, -10.0, 10.0]), ("W = 400, E = 40", [400.0, 40.0, -10.0, 10.0]),
                     ("S > 90, N below", [0.0, 10.0, 95.0, 50.0]), ("N < -90, S above", [0.0, 10.0, -50.0, -95.0]), ("W < -180", [-181.0, 10.0, -10.0, 10.0]), ("E > 360", [10.0, 360.5, -10.0, 10.0])):
        T["longitude_continuity: region %s" % nm_] = lambda rg_=rg_: vd.longitude_continuity(None, rg_)
        T["longitude_continuity with coordinates: region %s" % nm_] = lambda rg_=rg_: vd.longitude_continuity((np.array([0.0, 5.0]), np.array([0.0, 1.0])), rg_)
    T["longitude_continuity: longitude > 360"] = lambda: vd.longitude_continuity((np.array([0.0, 361.0]), np.array([0.0, 1.0])), [0.0, 10.0, -10.0, 10.0])
    T["longitude_continuity: latitude < -90"] = lambda: vd.longitude_continuity((np.array([0.0, 5.0]), np.array([0.0, -91.0])), [0.0, 10.0, -10.0, 10.0])
    T["longitude_continuity: span > 360"] = lambda: vd.longitude_continuity(None, [-180, 185, 0, 1])
    T["Trend: negative degree"] = lambda: vd.Trend(-1).fit((e, n), d0)
    T["partition_by_sum: too many parts"] = lambda: vd.utils.partition_by_sum([1, 2, 3], 4)
    T["maxabs-free: pad_region ok"] = None
    del T["maxabs-free: pad_region ok"]
    return T


def run(case, rec):
    import verde as vd

    warnings.simplefilter("ignore")
    kind = case["kind"]
    if kind == "catalogue":
        slots_t, fn = _catalogue()[case["name"]]

        def fresh():
            return {k: np.array(v, copy=True) for k, v in slots_t.items()}

        def run_variant(variant, which=None):
            a = fresh()
            keep = {}
            for k in a:
                if variant == "view" and k == which:
                    big = np.repeat(a[k].ravel(), 2)
                    a[k] = big[::2].reshape(a[k].shape)
                if variant == "fortran" and k == which:
                    a[k] = np.asfortranarray(a[k])
                if (variant == "readonly" and k == which) or variant == "all_readonly":
                    a[k].setflags(write=False)
                keep[k] = a[k].tobytes()
            res = call(rec, fn, vd, a)
            changed = [k for k in a if a[k].tobytes() != keep[k]]
            rec.check(not changed, "%s (%s %s): argument array(s) %s were modified" % (case["name"], variant, which or "", changed))
            return res

        base = run_variant("base")
        if raised(base):
            return rec.check(False, "%s: valid template raised %r" % (case["name"], base))
        cb = _canon(base)
        base2 = run_variant("base")   # an untouched copy of the base result for the tolerant comparisons below
        _scribble(base)     # the caller overwrites what it got back; nothing the library still holds may change
        again = run_variant("base")
        rec.check(not raised(again) and _canon(again) == cb, "%s: a second identical call returned a different result" % case["name"])
        for k in slots_t:
            for variant in ("readonly", "view") + (("fortran",) if np.ndim(slots_t[k]) == 2 else ()):
                r = run_variant(variant, k)
                if raised(r):
                    rec.check(False, "%s: %s input %r raised %r although the writable contiguous one works" % (case["name"], variant, k, r))
                elif variant == "readonly":
                    rec.check(_canon(r) == cb, "%s: result changes when %r is passed as a read-only array" % (case["name"], k))
                else:
                    # another memory layout of the same values: equal up to round-off (that is C04's tolerance, not bitwise)
                    rec.check(_approx(r, base2), "%s: result changes when %r is passed as a %s array" % (case["name"], k, variant))
        if slots_t:
            # the caller refills the SAME array objects with other values between two calls: the second call must see the new values
            # (seed C14-r2_1: a k-d tree cached on the identity of the coordinate arrays)
            a = fresh()
            first = call(rec, fn, vd, a)
            for k in a:
                a[k][...] = a[k] + 0.125
            second = call(rec, fn, vd, a)
            b = {k: np.array(v, copy=True) + 0.125 for k, v in slots_t.items()}
            third = call(rec, fn, vd, b)
            if raised(third):
                rec.check(raised(second), "%s: shifted inputs are refused in fresh arrays (%r) but accepted in re-used ones" % (case["name"], third))
            else:
                rec.check(not raised(second) and _canon(second) == _canon(third),
                          "%s: re-using the argument arrays with new contents gives a result that differs from fresh arrays with those contents" % case["name"])
        if slots_t:
            r = run_variant("all_readonly")
            rec.check(not raised(r) and _canon(r) == cb, "%s: all-read-only inputs behave differently: %r" % (case["name"], r if raised(r) else "result differs"))
        rec.cls("catalogue")
        return
    if kind == "interference":
        fam = _families(vd)[case["family"]]
        npairs = 0
        for i, fi in enumerate(fam):
            first = call(rec, fi)
            if raised(first):
                rec.check(False, "%s variant %d raised %r" % (case["family"], i, first))
                continue
            c1 = _canon(first)
            for j, fj in enumerate(fam):
                if i == j:
                    continue
                other = call(rec, fj)
                if not raised(other):
                    _scribble(other)
                again = call(rec, fi)
                npairs += 1
                rec.check(not raised(again) and _canon(again) == c1,
                          "%s: the result of variant %d changes after a call of variant %d (and the caller overwriting that call's output)" % (case["family"], i, j))
        rec.count("interference_pairs", npairs)
        rec.cls("interference")
        return
    if kind == "unfitted":
        est = SPECS[case["spec"]](vd)
        if case["spec"] in ("Chain", "Vector"):
            # a Chain / Vector assembled from components that were ALREADY fitted elsewhere but never fitted itself is still unfitted
            # (round 9, seed C20-18: fittedness delegated to the components)
            ea_, na_, d0a_, d1a_ = _pts("a")
            pre = vd.Chain([("t", vd.Trend(1).fit((ea_, na_), d0a_)), ("s", vd.Spline(damping=1e-2).fit((ea_, na_), d0a_))]) if case["spec"] == "Chain" \
                else vd.Vector([vd.Trend(1).fit((ea_, na_), d0a_), vd.KNeighbors(k=1).fit((ea_, na_), d1a_)])
            for name, f in (("predict", lambda: pre.predict(PROBE)), ("grid", lambda: pre.grid(shape=(2, 2), region=(0, 1, 0, 1))),
                            ("profile", lambda: pre.profile((0, 0), (1, 1), 3)), ("scatter", lambda: pre.scatter(region=(0, 1, 0, 1), size=3))):
                got = call(rec, f)
                rec.check(raised(got), "%s of pre-fitted components: %s before fitting the %s itself did not raise" % (case["spec"], name, case["spec"]))
        for name, f in (("predict", lambda: est.predict(PROBE)), ("grid", lambda: est.grid(shape=(2, 2), region=(0, 1, 0, 1))),
                        ("score", lambda: est.score(PROBE, PROBE[0] if case["spec"] not in VECTOR_SPECS else (PROBE[0], PROBE[1]))),
                        ("profile", lambda: est.profile((0, 0), (1, 1), 3)), ("scatter", lambda: est.scatter(region=(0, 1, 0, 1), size=3))):
            got = call(rec, f)
            rec.check(raised(got), "%s.%s before fitting did not raise" % (case["spec"], name))
        return
    if kind == "invalid":
        f = _invalid_table(vd)[case["name"]]
        got = call(rec, f)
        rec.check(raised(got), "inconsistent input accepted silently: %s -> %r" % (case["name"], type(got).__name__))
        rec.cls("invalid:" + case["name"].split(":")[0].split(".")[0])
        return
    if kind == "objhistory":
        from sklearn.base import clone
        mk, (pname, pbase, palt), how = _obj_specs(vd)[case["spec"]]

        def setp(o, val):
            # cross-validators are not scikit-learn estimators (no set_params): their parameters are plain attributes
            if hasattr(o, "set_params"):
                o.set_params(**{pname: val})
            else:
                setattr(o, pname, val)

        def replay(hist):
            """Replays the history on ONE instance; returns (canonical result of the last event if it was a call, oracle for it, parameter set)."""
            obj, pset, owned, got, want, keep = mk(), "base", [], None, None, []
            for ev in hist:
                got = want = None
                if ev == "interleave":
                    # two splitting loops of the SAME cross-validator alive at once (nested cross-validation, zip of two splits): the folds of
                    # each data set are those of a fresh splitter (round 9, seed C11-17: point labels kept on the instance between yields)
                    if how != "split":
                        continue
                    def two(o_):
                        ea_, na_ = _pts("a")[:2]
                        eb_, nb_ = _pts("b")[:2]
                        g1, g2 = o_.split(np.column_stack([ea_, na_])), o_.split(np.column_stack([eb_, nb_]))
                        l1, l2, live = [], [], [True, True]
                        while any(live):
                            for k_, (g_, l_) in enumerate(((g1, l1), (g2, l2))):
                                if live[k_]:
                                    try:
                                        tr_, te_ = next(g_)
                                        l_.append((tr_.copy(), te_.copy()))
                                    except StopIteration:
                                        live[k_] = False
                        return l1, l2
                    def sep(mk_):
                        ea_, na_ = _pts("a")[:2]
                        eb_, nb_ = _pts("b")[:2]
                        a_, b_ = mk_(), mk_()
                        return ([(x.copy(), y.copy()) for x, y in a_.split(np.column_stack([ea_, na_]))], [(x.copy(), y.copy()) for x, y in b_.split(np.column_stack([eb_, nb_]))])
                    def mkcur():
                        f_ = mk()
                        setp(f_, palt if pset == "alt" else pbase)
                        return f_
                    try:
                        got = _canon(two(obj))
                    except Exception as exc:  # noqa: BLE001
                        got = "raised " + type(exc).__name__
                    try:
                        want = _canon(sep(mkcur))
                    except Exception as exc:  # noqa: BLE001
                        want = "raised " + type(exc).__name__
                    rec.trans(2)
                elif ev == "again":
                    # the caller reverses, IN PLACE, the arrays of its last call and calls again with the very same array objects (round 8,
                    # seed C11-15: block labels memoised on the identity of the coordinate array)
                    if not keep:
                        continue
                    which, arrs = keep
                    for a in arrs:
                        a[...] = a[::-1, ::-1].copy() if a.ndim == 2 and a is not arrs[5] else a[::-1].copy()
                    if arrs[0].ndim == 2:
                        arrs[5][...] = np.column_stack([arrs[0].ravel(), arrs[1].ravel()])
                    try:
                        got = _canon(_obj_call(obj, how, which, owned, keep, arrays=arrs))
                    except Exception as exc:  # noqa: BLE001
                        got = "raised " + type(exc).__name__
                    fresh = mk()
                    setp(fresh, palt if pset == "alt" else pbase)
                    try:
                        want = _canon(_obj_call(fresh, how, which, arrays=tuple(np.array(a, copy=True) for a in arrs)))
                    except Exception as exc:  # noqa: BLE001
                        want = "raised " + type(exc).__name__
                    rec.trans(2)
                elif ev.startswith("call_"):
                    try:
                        got = _canon(_obj_call(obj, how, ev[-1], owned, keep))
                    except Exception as exc:  # noqa: BLE001
                        got = "raised " + type(exc).__name__
                    fresh = mk()
                    setp(fresh, palt if pset == "alt" else pbase)
                    try:
                        want = _canon(_obj_call(fresh, how, ev[-1]))
                    except Exception as exc:  # noqa: BLE001
                        want = "raised " + type(exc).__name__
                    rec.trans(2)
                elif ev in ("alt", "base"):
                    setp(obj, palt if ev == "alt" else pbase)
                    pset = ev
                elif ev == "clone":
                    obj = clone(obj) if hasattr(obj, "get_params") else copy.deepcopy(obj)
                elif ev == "params":
                    if hasattr(obj, "get_params"):
                        obj.set_params(**obj.get_params())
                    else:
                        repr(obj)
                elif ev == "overwrite":
                    for a in owned:
                        _scribble(a)
                else:
                    raise ValueError(ev)
            return got, want, pset

        frontier, nhist, outcomes = [[]], 0, set()
        while frontier:
            nxt = []
            for hist in frontier:
                if len(hist) >= case["depth"]:
                    continue
                for ev in OBJ_EVENTS:
                    h2 = hist + [ev]
                    nxt.append(h2)
                    if not (ev.startswith("call_") or ev in ("again", "interleave")):
                        continue  # only histories that end in a call observe anything new (prefixes were checked at their own depth)
                    got, want, pset = replay(h2)
                    nhist += 1
                    outcomes.add((pset, ev, hash(want)))
                    if got != want:
                        got2, _, _ = replay(h2)
                        if got2 != got:
                            raise RuntimeError("object history %s does not replay identically" % (h2,))
                    rec.check(got == want, "%s: after history %s the call returns something else than a fresh instance with the same parameters (%s)"
                              % (case["spec"], h2, "it raised" if isinstance(got, str) else "fresh raised" if isinstance(want, str) else "results differ"))
            frontier = nxt
        rec.count("object_histories", nhist)
        rec.count("object_history_outcomes", len(outcomes))
        rec.state([case["spec"], sorted(map(repr, outcomes))])
        rec.cls("objhistory/%s/outcomes=%d" % (case["spec"], len(outcomes)))
        return
    if kind == "history":
        spec = case["spec"]
        events = [ev for ev in EVENTS if not (ev == "overwrite" and spec in NO_OVERWRITE)]
        canon_fp = {}

        def canonical(abstract):
            key = repr(abstract)
            if key not in canon_fp:
                d = _replay(vd, spec, _canonical_history(spec, abstract))
                canon_fp[key] = d.fingerprint()
            return canon_fp[key]

        seen = set()
        frontier = [[]]
        nstates = ntrans = 0
        maxdepth = 0
        d0 = _replay(vd, spec, [])
        seen.add(repr((d0.abstract(), d0.fingerprint())))
        rec.state([spec, repr(d0.abstract())])
        while frontier:
            nxt = []
            for hist in frontier:
                if len(hist) >= case["depth"]:
                    continue
                for ev in events:
                    h2 = hist + [ev]
                    try:
                        d = _replay(vd, spec, h2)
                        fp = d.fingerprint()
                    except Exception as exc:  # noqa: BLE001
                        rec.check(False, "%s: history %s raised %r" % (spec, h2, exc))
                        continue
                    ntrans += 1
                    rec.trans()
                    for msg in d.errors:
                        rec.check(False, "%s: history %s: %s" % (spec, h2, msg))
                    want = canonical(d.abstract())
                    if fp != want:
                        # replay once more before trusting it
                        d2 = _replay(vd, spec, h2)
                        if d2.fingerprint() != fp:
                            raise RuntimeError("history %s does not replay identically" % (h2,))
                        rec.check(False, "%s: after history %s the estimator differs from a fresh one driven through %s:\n   got  %s\n   want %s"
                                  % (spec, h2, _canonical_history(spec, d.abstract()), str(fp)[:400], str(want)[:400]))
                    else:
                        rec.nchecks += 1
                    key = repr((d.abstract(), fp))
                    new = key not in seen
                    if new:
                        seen.add(key)
                        rec.state([spec, key])
                    # Histories are only merged for SplineCV (each fit is a whole cross-validation); for every other spec ALL
                    # histories up to the depth bound are replayed, so no assumption that equal fingerprints have equal futures.
                    if new or spec not in DEDUPE:
                        nxt.append(h2)
                        maxdepth = max(maxdepth, len(h2))
            frontier = nxt
        rec.count("bfs_states", len(seen))
        rec.count("bfs_transitions", ntrans)
        rec.cls("history/%s/states=%d" % (spec, len(seen)))
        return
    raise ValueError(kind)
