"""
C08  block_split labels every point with the block containing it.

One case = one call of block_split on *all* nodes of a quarter-unit lattice that covers the
region and one block beyond it on every side (so block edges, corners and outside points are
all present), for one region / block specification / adjust / array form / frame.
Oracle: exact rational block edges (models.gridref.block_index_exact).
"""
import itertools
from fractions import Fraction as F

import numpy as np

from mc.util import call, raised, pick_frames, array_args, array_args_unchanged
from models import gridref as G

ID = "C08"
LEVEL = "model_checking"
RULE = (
    "Exhaustive product: region {4 given regions, bounding box inferred from every k-subset (k=2..4) of 6 marker points} x "
    "block spec {shapes incl. (1,1),(1,n),(n,1); scalar and per-direction spacings, dividing or not} x adjust x array form "
    "{1-D, 2-D C / Fortran order, with extra coordinate, integer dtype for both or one coordinate} x dyadic scale/offset frames; in each case every node of the quarter-unit lattice over the "
    "region plus one block on every side is labelled and compared with exact rational block edges (edge points: either neighbour; "
    "outside points: clamped per axis). Non-trivial: at least two blocks and one point strictly inside some block."
    " Added axes: Fortran and integer forms, points 1e-3 ... 1e-9 block widths beside every internal edge (guard band 64 ulp), degenerate inferred regions, frames 2^-30 and (2^-10, 2^20), numpy-array arguments, 120 000 ... 240 000 blocks, 60 000 ... 262 145 points, staggered 2-D grids, coordinates as column / reversed views of one (N, 2) table."
)
ASSUMPTIONS = ["lattice and block edges are rational; float evaluation of a strict-inside test cannot flip because a lattice "
               "point is either exactly on an edge or at least 1/48 of a unit away from it"]

REGIONS = [[0.0, 4.0, 0.0, 2.0], [0.0, 3.0, 0.0, 3.0], [-5.0, -1.0, 5.0, 8.0], [10.0, 12.5, -3.0, -1.0]]
MARKERS = [(0.0, 0.0), (2.0, 0.5), (0.75, 3.0), (4.0, 1.25), (1.5, 1.5), (3.25, 2.75)]
SPECS = (
    [dict(shape=s) for s in ([1, 1], [1, 3], [3, 1], [2, 2], [2, 4], [3, 2], [4, 3])]
    + [dict(spacing=s) for s in (0.5, 1.0, 1.5, 0.75, 2.5, 7.0)]
    + [dict(spacing=s) for s in ([0.5, 1.0], [1.0, 0.5], [1.5, 0.75], [2.0, 1.25])]
)
FRAMES = [[1.0, 0.0], [1.0, 7460000.0], [2.0 ** -7, 0.0], [2.0 ** 10, 0.0], [1.0, 4096.0], [2.0 ** 20, 2.0 ** 30], [2.0 ** -30, 0.0],
          [2.0 ** -10, 2.0 ** 20]]   # the last: millimetre blocks at coordinates of a million (ratio 2^30)
DEGENERATE = [[[1.0, 0.0], [1.0, 1.0], [1.0, 2.0], [1.0, 3.5]], [[0.0, 2.0], [1.5, 2.0], [4.0, 2.0], [2.25, 2.0]], [[2.0, 0.5]], [[-3.0, 1.0], [-3.0, 1.0]]]
NEAR = [1e-3, 1e-5, 2e-6, 1e-6, 1e-7, 1e-9]   # fractions of a block
ALWAYS_FRAMES = [[1.0, 0.0], [1.0, 7460000.0], [2.0 ** -10, 2.0 ** 20]]   # the second one: projected-coordinate magnitudes at which a float32 cast moves quarter-unit points


def _frames(tier, seed):
    fr = pick_frames(FRAMES, tier, seed)
    for f in ALWAYS_FRAMES:
        if f not in fr:
            fr.insert(1, f)
    return fr


def bounds(tier, seed):
    return dict(frames=_frames(tier, seed), regions=REGIONS, markers=MARKERS, n_block_specs=len(SPECS),
                lattice_step=0.25)


def cases(tier, seed):
    """Every fifth case (rotating with the seed) passes region / shape / spacing as numpy arrays and checks that they are untouched."""
    for i, c in enumerate(_cases(tier, seed)):
        yield dict(c, args="ndarray") if (i + seed) % 5 == 0 else c


def _cases(tier, seed):
    # more than 100 000 blocks in non-square layouts (seed C08-12: another search path for very many blocks)
    for spec in (dict(shape=[250, 500]), dict(shape=[500, 250]), dict(spacing=0.1), dict(shape=[1, 150000]), dict(shape=[120001, 1])):
        yield dict(many=True, spec=spec)
    # very many POINTS on a small layout (round 8, seed C09-16: labels computed chunk by chunk with the last partial chunk left at 0)
    for npts in (60000, 130001, 262145):
        yield dict(manypoints=npts)
    for fr in _frames(tier, seed):
        for spec in SPECS:
            for adjust in ("spacing", "region"):
                if "shape" in spec and adjust == "region":
                    continue
                for form in ("1d", "2d", "2d+extra", "2dF", "int", "int_e", "2d_stagger", "table_ne", "table_rev"):
                    for region in REGIONS:
                        yield dict(frame=fr, spec=spec, adjust=adjust, form=form, region=region, given=True)
                    if (form not in ("1d",) and tier == "quick") or form in ("int", "int_e", "2d_stagger"):
                        continue   # integer forms drop the non-integer lattice points, which would change an inferred region
                    for k in (2, 3, 4):
                        for sub in itertools.combinations(range(len(MARKERS)), k):
                            yield dict(frame=fr, spec=spec, adjust=adjust, form=form, markers=list(sub), given=False)
                    # degenerate bounding boxes (documented as valid regions): collinear points and a single point (seed C08-8)
                    for pts in DEGENERATE:
                        yield dict(frame=fr, spec=spec, adjust=adjust, form=form, markers=[], pts=pts, given=False)


def _lattice(lo, hi, pad):
    a = int((lo - pad) * 4) - 1
    b = int((hi + pad) * 4) + 1
    return [i / 4 for i in range(a, b + 1)]


def run(case, rec):
    import verde as vd

    if case.get("manypoints"):
        npts = case["manypoints"]
        region = [0.0, 8.0, 0.0, 3.0]
        i = np.arange(npts, dtype=float)
        east = 8.0 * np.modf(i * 0.6180339887498949)[0]
        north = 3.0 * np.modf(i * 0.7548776662466927)[0]
        got = call(rec, vd.block_split, (east, north), region=region, shape=(3, 8))
        if raised(got):
            return rec.check(False, "block_split raised %r" % (got,))
        (bce, bcn), labels = got
        labels = np.asarray(labels)
        if not rec.check(labels.shape == (npts,), "expected %d labels, got %s" % (npts, labels.shape)):
            return
        # unit blocks on integer edges: the exact block of a point is (floor(north), floor(east)); points within 1e-9 of an edge may take either side
        fe, fn = np.floor(east), np.floor(north)
        clear = (np.abs(east - np.round(east)) > 1e-9) & (np.abs(north - np.round(north)) > 1e-9)
        want = (fn * 8 + fe).astype(int)
        wrong = np.nonzero(clear & (labels.astype(int) != want))[0]
        rec.check(wrong.size == 0, "%d points: %d points strictly inside a block got another label, first at index %d: (%r, %r) labelled %d instead of %d"
                  % ((npts, wrong.size) + ((int(wrong[0]), float(east[wrong[0]]), float(north[wrong[0]]), int(labels[wrong[0]]), int(want[wrong[0]])) if wrong.size else (0, 0.0, 0.0, 0, 0))))
        rec.count("points_labelled", npts)
        rec.count("points_strictly_inside_one_block", int(clear.sum()))
        rec.cls("many-points")
        return
    if case.get("many"):
        spec = case["spec"]
        region = [0.0, 80.0, 0.0, 30.0]
        i = np.arange(400, dtype=float)
        east = 80.0 * np.modf(i * 0.6180339887498949)[0]
        north = 30.0 * np.modf(i * 0.7548776662466927)[0]
        kw = dict(region=region)
        if "shape" in spec:
            kw["shape"] = tuple(spec["shape"]); nn, ne = spec["shape"]
        else:
            kw["spacing"] = spec["spacing"]; nn, ne = 300, 800
        got = call(rec, vd.block_split, (east, north), **kw)
        if raised(got):
            return rec.check(False, "block_split raised %r" % (got,))
        (bce, bcn), labels = got
        labels = np.asarray(labels)
        rec.check(np.asarray(bce).size == nn * ne and labels.shape == (400,), "expected %d blocks and 400 labels, got %d and %s" % (nn * ne, np.asarray(bce).size, labels.shape))
        bad = None
        nstrict = 0
        for j in range(400):
            adm = G.block_index_exact(east[j], north[j], region, ne, nn, (1e-12, 1e-12))
            nstrict += len(adm) == 1
            if int(labels[j]) not in adm and bad is None:
                bad = (float(east[j]), float(north[j]), int(labels[j]), sorted(adm))
        rec.check(bad is None, "layout %d x %d: point (%r, %r) labelled %r, admissible %r" % ((nn, ne) + (bad if bad else (0, 0, 0, 0))))
        if np.asarray(bce).size == nn * ne and bad is None:
            lab = labels.astype(int)
            ce = (lab % ne + 0.5) * (80.0 / ne); cn = (lab // ne + 0.5) * (30.0 / nn)
            rec.check(bool(np.all(np.abs(np.asarray(bce)[lab] - ce) <= 1e-9) and np.all(np.abs(np.asarray(bcn)[lab] - cn) <= 1e-9)), "block centres of the labelled blocks are not the centres of the pixel grid")
        rec.count("points_labelled", 400)
        rec.count("points_strictly_inside_one_block", nstrict)
        rec.cls("many-blocks %dx%d" % (nn, ne))
        return
    sc, off = case["frame"]
    spec, adjust = case["spec"], case["adjust"]
    if case["given"]:
        base_region = case["region"]
        extra_pts = []
    else:
        pts = [tuple(p) for p in case["pts"]] if case.get("pts") else [MARKERS[i] for i in case["markers"]]
        base_region = [min(p[0] for p in pts), max(p[0] for p in pts), min(p[1] for p in pts), max(p[1] for p in pts)]
        extra_pts = pts
    w, e, s, n = base_region
    # unscaled block spec -> per-axis spacing / counts
    if "shape" in spec:
        nn, ne = spec["shape"]
        pad_e = (e - w) / ne if e > w else 1.0
        pad_n = (n - s) / nn if n > s else 1.0
    else:
        sp = spec["spacing"]
        sp_n, sp_e = (sp if isinstance(sp, list) else [sp, sp])
        pad_e, pad_n = sp_e, sp_n
    if case["given"]:
        es = _lattice(w, e, min(pad_e, 2.0))
        ns = _lattice(s, n, min(pad_n, 2.0))
        cloud = [(x, y) for y in ns for x in es]
    else:
        es = [x for x in _lattice(w, e, 0) if w <= x <= e]
        ns = [y for y in _lattice(s, n, 0) if s <= y <= n]
        cloud = [(x, y) for y in ns for x in es] + list(extra_pts)
    east = np.array([p[0] * sc + off for p in cloud])
    north = np.array([p[1] * sc + off for p in cloud])
    region = [w * sc + off, e * sc + off, s * sc + off, n * sc + off]
    form = case["form"]
    if form == "2d_stagger":
        # a grid whose interior rows / columns are displaced (alternating flight-line directions, a staggered grid): a 2-D array that is
        # NOT a meshgrid although its first and last rows and columns look like one (seed C08-13)
        g_e, g_n = np.meshgrid(np.array(es) * sc + off, np.array(ns) * sc + off)
        if g_e.shape[0] >= 3:
            g_e[1:-1:2, :] += 0.25 * sc
        if g_e.shape[1] >= 3:
            g_n[:, 1:-1:2] += 0.25 * sc
        east, north = g_e, g_n
    # points a small fraction of a block away from every internal block edge (seed C08-7: a "tie" tolerance when breaking ties
    # between the two nearest block centres); only when the layout is known beforehand
    guard = (0, 0)
    if case["given"] and e > w and n > s and form != "2d_stagger":
        lay = None
        if "shape" in spec:
            lay = (spec["shape"][1], spec["shape"][0], list(region))
        else:
            sp_ = spec["spacing"]
            spn_, spe_ = [v * sc for v in (sp_ if isinstance(sp_, list) else [sp_, sp_])]
            kes_, _ = G.n_intervals(region[0], region[1], spe_)
            kns_, _ = G.n_intervals(region[2], region[3], spn_)
            if len(kes_) == 1 and len(kns_) == 1:
                ne_0, nn_0 = list(kes_)[0], list(kns_)[0]
                eff_ = list(region)
                if adjust == "region":
                    eff_[1] = float(G.fr(region[0]) + ne_0 * G.fr(spe_))
                    eff_[3] = float(G.fr(region[2]) + nn_0 * G.fr(spn_))
                lay = (ne_0, nn_0, eff_)
        if lay is not None:
            ne_0, nn_0, eff_ = lay
            bw, bh = (eff_[1] - eff_[0]) / ne_0, (eff_[3] - eff_[2]) / nn_0
            mag = max(abs(v) for v in eff_)
            guard = (max(1e-10 * bw, 64 * np.spacing(mag)), max(1e-10 * bh, 64 * np.spacing(mag)))
            near_e, near_n = [], []
            for dl in NEAR:
                for sg in (-1.0, 1.0):
                    for c_ in range(1, ne_0):
                        for r_ in {0, nn_0 - 1}:
                            near_e.append(eff_[0] + c_ * bw + sg * dl * bw); near_n.append(eff_[2] + (r_ + 0.5) * bh)
                    for r_ in range(1, nn_0):
                        for c_ in {0, ne_0 - 1}:
                            near_e.append(eff_[0] + (c_ + 0.5) * bw); near_n.append(eff_[2] + r_ * bh + sg * dl * bh)
            east = np.concatenate([east, near_e])
            north = np.concatenate([north, near_n])
            rec.count("points_near_an_edge", len(near_e))
    if form in ("2d", "2d+extra", "2dF"):
        # make a 2-D array (pad by repeating the first point so that any count reshapes)
        m = len(east)
        cols = 7
        padn = (-m) % cols
        east = np.concatenate([east, np.repeat(east[:1], padn)]).reshape(-1, cols)
        north = np.concatenate([north, np.repeat(north[:1], padn)]).reshape(-1, cols)
    if form == "2dF":
        east, north = np.asfortranarray(east), np.asfortranarray(north)
    if form in ("table_ne", "table_rev"):
        # 1-D coordinates that are views of ONE (N, 2) table: its columns in (northing, easting) order, or reversed views of a table whose
        # rows are stored last-to-first (round 8, seed C08-16: a no-copy path returning the shared base array whatever the views select)
        if form == "table_ne":
            tab = np.column_stack([north, east])
            east, north = tab[:, 1], tab[:, 0]
        else:
            tab = np.column_stack([east, north])[::-1].copy()
            east, north = tab[::-1, 0], tab[::-1, 1]
    if form in ("int", "int_e"):
        # integer-valued points passed with an integer dtype (both coordinates, or the easting only): added after seeds C08-1 / C15-2
        keep = (east == np.round(east)) & (north == np.round(north)) & (np.abs(east) < 2 ** 40) & (np.abs(north) < 2 ** 40)
        east, north = east[keep], north[keep]
        if east.size == 0:
            rec.trivial = True
            rec.skip("no integer-valued lattice point in this frame")
            return
        east = east.astype(np.int64)
        if form == "int":
            north = north.astype(np.int64)
    coords = (east, north) if form != "2d+extra" else (east, north, np.arange(east.size, dtype=float).reshape(east.shape))
    kw = dict(adjust=adjust)
    if "shape" in spec:
        kw["shape"] = tuple(spec["shape"])
    else:
        sp = spec["spacing"]
        kw["spacing"] = tuple(v * sc for v in sp) if isinstance(sp, list) else sp * sc
    if case["given"]:
        kw["region"] = region
    if case.get("args") == "ndarray":
        kw_a, snap = array_args(kw)
        got = call(rec, vd.block_split, coords, **kw_a)
        rec.check(array_args_unchanged(kw_a, snap), "block_split modified an argument array: %r -> %r" % ({k: v[0].tolist() for k, v in snap.items()}, {k: kw_a[k].tolist() for k in snap}))
    else:
        got = call(rec, vd.block_split, coords, **kw)
    if raised(got):
        rec.check(False, "block_split raised %r" % (got,))
        return
    (bce, bcn), labels = got
    bce, bcn, labels = np.asarray(bce), np.asarray(bcn), np.asarray(labels)
    # --- reference block layout
    if "shape" in spec:
        nn, ne = spec["shape"]
        eff = list(region)
    else:
        sp = kw["spacing"]
        sp_n, sp_e = sp if isinstance(sp, tuple) else (sp, sp)
        kes, _ = G.n_intervals(region[0], region[1], sp_e)
        kns, _ = G.n_intervals(region[2], region[3], sp_n)
        # the layout verde chose must be admissible; identify it from the centres it returned
        tot = bce.size
        cands = [(a, b) for a in kes for b in kns if a * b == tot]
        if not rec.check(len(cands) >= 1, "number of blocks %d is not an admissible layout %s x %s" % (tot, sorted(kns), sorted(kes))):
            return
        ne, nn = cands[0]
        if len(cands) > 1:
            # disambiguate by the number of distinct easting centres
            ne = len(set(bce.tolist()))
            nn = tot // max(ne, 1)
        eff = list(region)
        if adjust == "region":
            eff[1] = float(G.fr(region[0]) + ne * G.fr(sp_e))
            eff[3] = float(G.fr(region[2]) + nn * G.fr(sp_n))
    rec.check(bce.ndim == 1 and bcn.ndim == 1 and bce.size == nn * ne and bcn.size == nn * ne,
              "block coordinates must be two 1-D arrays of n_north*n_east=%d entries, got %s %s" % (nn * ne, bce.shape, bcn.shape))
    if bce.size != nn * ne:
        return
    # block centres = pixel-registered grid, row-major from the south-west (west->east fastest)
    we, ee, se, ne_ = [G.fr(v) for v in eff]
    tol_e = 4 * G.ulp_scale(eff[0], eff[1])
    tol_n = 4 * G.ulp_scale(eff[2], eff[3])
    okc = True
    for r in range(nn):
        for c in range(ne):
            ce = we + (c + F(1, 2)) * (ee - we) / ne
            cn = se + (r + F(1, 2)) * (ne_ - se) / nn
            b = r * ne + c
            if abs(F(float(bce[b])) - ce) > F(tol_e) or abs(F(float(bcn[b])) - cn) > F(tol_n):
                okc = False
    rec.check(okc, "block centres are not the pixel-registered grid of the region numbered row-major from the south-west: e=%s n=%s"
              % (bce.tolist()[:8], bcn.tolist()[:8]))
    # --- labels
    npts = east.size
    rec.check(labels.shape == (npts,), "labels shape %s != (%d,) raveled input" % (labels.shape, npts))
    if labels.shape != (npts,):
        return
    rec.check(np.issubdtype(labels.dtype, np.integer), "labels are not integers")
    rec.check(bool(np.all((labels >= 0) & (labels < nn * ne))), "label out of range")
    fe, fn = east.ravel(), north.ravel()
    nstrict = 0
    bad = None
    for i in range(npts):
        adm = G.block_index_exact(fe[i], fn[i], eff, ne, nn, guard)
        if len(adm) == 1:
            nstrict += 1
        if int(labels[i]) not in adm and bad is None:
            bad = (i, float(fe[i]), float(fn[i]), int(labels[i]), sorted(adm))
    rec.check(bad is None, "point #%s (%s, %s) labelled %s, admissible blocks %s (layout %dx%d, region %s)"
              % (bad + (nn, ne, eff) if bad else (0, 0, 0, 0, 0, nn, ne, eff)))
    rec.trans(0)
    rec.count("points_labelled", npts)
    rec.count("points_strictly_inside_one_block", nstrict)
    rec.trivial = (nn * ne < 2) or nstrict == 0
    rec.cls("%dx%d %s %s" % (nn, ne, "given" if case["given"] else "inferred", form))
