"""
C10  BlockMean outputs means and [0,1] weights by the documented rule; variance_to_weights.
"""
import itertools
from fractions import Fraction as F

import numpy as np

from mc.util import call, raised, array_args, array_args_unchanged, permuted_series
from models import blockref as B
from checks.c09 import build

ID = "C10"
LEVEL = "model_checking"
RULE = (
    "BlockMean.filter on all multisets of n <= 3 (thorough: 4) occupied sites of a 2x2 block layout in two input orders, plus every "
    "placement of 5 points with block populations (2,3), (3,2), (2,2,1) (needed to tell apart variance conventions and min/var "
    "pairings), x 1..3 components of non-constant data x weights {none, distinct} x uncertainty {False, True} x region {given, "
    "inferred} x center_coordinates x representation {1-D float, mixed memory layouts, integer-dtype easting}; variance_to_weights on every vector of length 1..4 over {0, 1e-16, 1e-15, 1e-14, 0.2, 1, 2, NaN} "
    "as array / tuple of arrays / 2-D / read-only, tol default and 1e-3. Non-trivial: two blocks with different positive variance, "
    "or a variance vector with two distinct values above the tolerance."
    " Added axes: four block definitions (spacing, shape, non-dividing spacing with either adjustment), parameter routes, large base level, mixed layouts, integer easting, permuted-index Series, weights scaled by 1e-9 / 1e9, uniform weights, 'no weights' as a tuple of None, numpy-array parameters."
)
ASSUMPTIONS = ["the unweighted block variance may be the population (ddof=0) or the sample (ddof=1) variance, the same choice for all blocks "
               "(the statement does not fix it; pandas >= 3 gives ddof=0, older pandas ddof=1)",
               "1e-12 relative tolerance on means and weights"]

VV = [0.0, 1e-16, 1e-15, 1e-14, 0.2, 1.0, 2.0, float("nan")]


def bounds(tier, seed):
    return dict(n_points=[1, 3 if tier == "quick" else 4], extra_placements="5 points on populations (2,3),(3,2),(2,2,1)",
                variance_values=["0", "1e-16", "1e-15", "1e-14", "0.2", "1", "2", "NaN"], vector_lengths=[1, 4])


def _placements(tier):
    nmax = 3 if tier == "quick" else 4
    for n in range(1, nmax + 1):
        for ms in itertools.combinations_with_replacement(range(8), n):
            yield list(ms)
    # five points: populations (2,3), (3,2), (2,2,1) over the 4 blocks; sites 2b, 2b+1 belong to block b
    for pops in ((2, 3), (3, 2), (2, 2, 1)):
        for blocks in itertools.permutations(range(4), len(pops)):
            if list(blocks) != sorted(blocks) and tier == "quick":
                continue
            per_block = []
            for b, k in zip(blocks, pops):
                per_block.append(list(itertools.combinations_with_replacement((2 * b, 2 * b + 1), k)))
            for combo in itertools.product(*per_block):
                yield sorted(s for part in combo for s in part)


def cases(tier, seed):
    """Every fifth BlockMean case (rotating with the seed) hands region / shape / spacing over as numpy arrays (purity checked)."""
    for i, c in enumerate(_cases(tier, seed)):
        yield dict(c, args="ndarray") if (i + seed) % 5 == 0 and c["kind"] == "blockmean" and not c.get("route") else c


def _cases(tier, seed):
    for ms in _placements(tier):
        for order in ("asc", "rev"):
            if len(ms) == 1 and order == "rev":
                continue
            for ncomp in (1, 2, 3):
                for w, unc in ((False, False), (True, False), (True, True), (False, True)):
                    for region in ("given", "inferred"):
                        for center in (False, True):
                            if center and (ncomp != 2 or region == "inferred"):
                                continue
                            yield dict(kind="blockmean", layout=[2, 2], sites=ms, order=order, ncomp=ncomp, w=w, unc=unc,
                                       region=region, center=center)
                            if ncomp == 2 and region == "given":
                                # parameters reached through set_params / attribute assignment / clone instead of the constructor
                                # (seed C10-r3_1: the weighting rule bound once in __init__)
                                for route in ("set_params", "attribute", "clone"):
                                    yield dict(kind="blockmean", layout=[2, 2], sites=ms, order=order, ncomp=ncomp, w=w, unc=unc,
                                               region=region, center=center, route=route)
                            if w and region == "given" and ncomp <= 2 and not center:
                                yield dict(kind="blockmean", layout=[2, 2], sites=ms, order=order, ncomp=ncomp, w="uniform", unc=unc,
                                           region=region, center=center)
                                # weights of magnitude 1e-9 / 1e9, and data / weights as Series with a permuted index (as C09)
                                for wsc in (1e-9, 1e9):
                                    yield dict(kind="blockmean", layout=[2, 2], sites=ms, order=order, ncomp=ncomp, w=True, unc=unc,
                                               region=region, center=center, wscale=wsc)
                            if region == "given" and ncomp <= 2 and not center:
                                yield dict(kind="blockmean", layout=[2, 2], sites=ms, order=order, ncomp=ncomp, w=w, unc=unc,
                                           region=region, center=center, rep="series")
                            if region == "given" and ncomp <= 2:
                                # other ways of defining the same blocks: a shape, a spacing that does not divide the region with either
                                # adjustment (mutation survivor: the adjust keyword dropped from BlockMean's block_split call)
                                for block in ("shape", "spacing_nd_s", "spacing_nd_r"):
                                    yield dict(kind="blockmean", layout=[2, 2], sites=ms, order=order, ncomp=ncomp, w=w, unc=unc,
                                               region=region, center=center, block=block)
                            if ncomp == 1 and not center and region == "given":
                                # non-dyadic data on a large base level (gravity-like 978000.x): exposes cancellation in one-pass variance
                                # formulas (seed C10-r2_2); compared at 1e-6 relative with the exact rational result
                                yield dict(kind="blockmean", layout=[2, 2], sites=ms, order=order, ncomp=ncomp, w=w, unc=unc,
                                           region=region, center=center, base="large")
                            if ncomp == 2 and not center and len(ms) % 2 == (0 if region == "given" else 0):
                                for rep in ("mixed", "int_e"):
                                    yield dict(kind="blockmean", layout=[2, 2], sites=ms, order=order, ncomp=ncomp, w=w, unc=unc,
                                               region=region, center=center, rep=rep)
                            if w and region == "inferred" and ncomp <= 2 and not center:
                                # the two points that span the inferred region carry weight exactly 0 (round 9, seed C10-18: zero-weight points
                                # dropped before the blocks are laid out): they still belong to the data, to its bounding box and to their blocks
                                yield dict(kind="blockmean", layout=[2, 2], sites=ms, order=order, ncomp=ncomp, w=w, unc=unc,
                                           region=region, center=center, wzero="pins")
                            if ncomp == 2 and not center and region == "given":
                                # integer-valued weights / data passed with an integer dtype (round 8, seed C10-15: np.reciprocal of an
                                # integer sum of weights)
                                for rep in (("int_w", "int_d") if w else ("int_d",)):
                                    yield dict(kind="blockmean", layout=[2, 2], sites=ms, order=order, ncomp=ncomp, w=w, unc=unc,
                                               region=region, center=center, rep=rep)
    for k in (1, 2, 3, 4):
        for vec in itertools.product(range(len(VV)), repeat=k):
            forms = ["array", "readonly"]
            if k >= 2:
                forms.append("tuple2")
            if k == 3:
                forms.append("tuple3")
            if k == 4:
                forms.append("2d")
            if k <= 2:
                forms.append("list")
            for form in forms:
                for tol in (None, 1e-3):
                    if tol is not None and form not in ("array", "tuple2"):
                        continue
                    yield dict(kind="v2w", vec=list(vec), form=form, tol=tol)


def _v2w_exact(vec, tol):
    vals = [None if v != v else B.fr(v) for v in vec]
    return B.variance_to_weights_exact(vals, tol)


def _same_nested(a, b):
    if isinstance(a, (tuple, list)):
        return isinstance(b, (tuple, list)) and len(a) == len(b) and all(_same_nested(x, y) for x, y in zip(a, b))
    return np.array_equal(np.asarray(a), np.asarray(b), equal_nan=True)


def run(case, rec):
    import verde as vd

    if case["kind"] == "v2w":
        vec = [VV[i] for i in case["vec"]]
        tol = case["tol"]
        kw = {} if tol is None else dict(tol=tol)
        t = 1e-15 if tol is None else tol
        form = case["form"]
        arrs = [np.array(vec)]
        if form == "tuple2":
            arrs = [np.array(vec), np.array(vec[::-1]) * 4.0]
        elif form == "tuple3":
            arrs = [np.array(vec), np.array(vec[::-1]) * 4.0, np.array(vec[1:] + vec[:1]) + 0.0]
        elif form == "2d":
            arrs = [np.array(vec).reshape(2, 2)]
        if form == "readonly":
            arrs[0].setflags(write=False)
        if form == "list":
            arg = list(vec)
        else:
            arg = arrs[0] if len(arrs) == 1 else tuple(arrs)
        before = [a.tobytes() for a in arrs]
        got = call(rec, vd.variance_to_weights, arg, **kw)
        after = [a.tobytes() for a in arrs]
        if raised(got):
            return rec.check(False, "variance_to_weights raised %r for %s input %r" % (got, form, vec))
        rec.check(before == after, "variance_to_weights modified its input (%s): %r" % (form, vec))
        outs = [got] if len(arrs) == 1 else list(got)
        rec.check(len(outs) == len(arrs), "one weights array per variance array expected")
        nontriv = False
        for a, o in zip(arrs, outs):
            o = np.asarray(o)
            rec.check(o.shape == a.shape, "shape %s not preserved (%s)" % (o.shape, a.shape))
            want = _v2w_exact(a.ravel().tolist(), t)
            ok = o.size == len(want) and all(B.close(g, w) for g, w in zip(o.ravel().tolist(), want))
            rec.check(ok, "variance_to_weights(%r, tol=%r) = %r, expected %r" % (a.ravel().tolist(), t, o.ravel().tolist(), [float(w) for w in want]))
            rec.check(bool(np.all((o > 0) & (o <= 1))), "weights outside (0, 1]")
            if len({w for w in want}) > 1:
                nontriv = True
        rec.trivial = not nontriv
        rec.cls("v2w/%s/len%d" % (form, len(vec)))
        return
    # ---------------- BlockMean
    e, n, labels = build(case)
    npts = e.size
    ncomp = case["ncomp"]
    data = [np.array([float((p + 2 + 3 * c) ** 2 + c) for p in range(npts)]) for c in range(ncomp)]
    big = case.get("base") == "large"
    if big:
        data = [np.array([978000.0 + 0.1 * ((p * 7) % 5) + 0.013 * p for p in range(npts)]) for c in range(ncomp)]
    wts = None
    if case["w"]:
        wts = [np.array([[p + 1.0, (npts - p) + 0.5, 2.0 ** p][c] for p in range(npts)]) for c in range(ncomp)]
    if wts is not None and case.get("wscale"):
        wts = [w_ * case["wscale"] for w_ in wts]
    if case["w"] == "uniform":
        # every point has the same uncertainty: still weights, not "no weights" (seed C10-9)
        wts = [np.full(npts, 0.25 * (c + 1)) for c in range(ncomp)]
    if case.get("wzero") == "pins":
        groups_ = {}
        for i_, l_ in enumerate(labels):
            groups_.setdefault(l_, []).append(i_)
        if len(groups_[labels[0]]) < 2 or len(groups_[labels[-1]]) < 2 or labels[0] == labels[-1] and len(groups_[labels[0]]) < 3:
            rec.trivial = True
            return rec.skip("a pin point alone in its block: an all-zero weight sum is outside the space")
        for w_ in wts:
            w_[0] = 0.0
            w_[-1] = 0.0
    rep = case.get("rep")
    if rep == "int_w" and wts is not None:
        wts = [np.round(w_ * 2.0) for w_ in wts]   # 2p+2, 2(n-p)+1, 2^(p+1): integer-valued, still different per point and component
    sc = 4.0 if rep == "int_e" else 1.0
    if rep == "int_e":
        e, n = e * 4.0, n * 4.0   # integer-valued easting with an integer dtype next to a float northing
    kw = dict(spacing=1.0 * sc, center_coordinates=case["center"], uncertainty=case["unc"])
    csize = 1.0 * sc
    block = case.get("block", "spacing")
    if block == "shape":
        del kw["spacing"]
        kw["shape"] = (2, 2)
    elif block in ("spacing_nd_s", "spacing_nd_r"):
        kw["spacing"] = 0.9 * sc
        kw["adjust"] = "spacing" if block.endswith("_s") else "region"
        if kw["adjust"] == "region":
            csize = 0.9 * sc
    if case["region"] == "given":
        kw["region"] = (0.0, 2.0 * sc, 0.0, 2.0 * sc)
    d_arg = data[0] if ncomp == 1 else tuple(data)
    w_arg = None if wts is None else (wts[0] if ncomp == 1 else tuple(wts))
    c_arg = (e, n)
    if rep == "int_e":
        c_arg = (e.astype(np.int64), n)
    if rep == "mixed" and npts % 2 == 0:
        shp = (2, npts // 2)
        c_arg = (e.reshape(shp), n.reshape(shp))
        d_arg = tuple(np.asfortranarray(d.reshape(shp)) for d in data)
        if wts is not None:
            w_arg = tuple(np.ascontiguousarray(w.reshape(shp).T).T for w in wts)
    if rep == "int_w" and wts is not None:
        w_arg = tuple(w_.astype(np.int64) for w_ in wts)
    if rep == "int_d":
        d_arg = tuple(d_.astype(np.int64 if k_ == 0 else np.int32) for k_, d_ in enumerate(data))
    if rep == "series":
        d_arg = permuted_series(data[0]) if ncomp == 1 else tuple(permuted_series(d_, k_) for k_, d_ in enumerate(data))
        if wts is not None:
            w_arg = permuted_series(wts[0], 1) if ncomp == 1 else tuple(permuted_series(w_, k_ + 1) for k_, w_ in enumerate(wts))
    before = [a.tobytes() for a in [e, n] + data + (wts or [])]
    route = case.get("route")
    if route in ("set_params", "attribute"):
        other = dict(kw, uncertainty=not kw["uncertainty"], center_coordinates=not kw["center_coordinates"], spacing=kw["spacing"] * 2)
        bm = call(rec, vd.BlockMean, **other)
        if not raised(bm):
            if route == "set_params":
                bm.set_params(**kw)
            else:
                for k_, v_ in kw.items():
                    setattr(bm, k_, v_)
    elif route == "clone":
        from sklearn.base import clone
        bm = call(rec, lambda: clone(vd.BlockMean(**kw)))
    elif case.get("args") == "ndarray":
        kw_a, snap_a = array_args(kw)
        if np.isscalar(kw_a.get("spacing")):
            kw_a["spacing"] = np.float64(kw_a["spacing"])
        bm = call(rec, vd.BlockMean, **kw_a)
    else:
        bm = call(rec, vd.BlockMean, **kw)
    if raised(bm):
        return rec.check(False, "BlockMean() raised %r" % (bm,))
    got = call(rec, bm.filter, c_arg, d_arg, w_arg)
    after = [a.tobytes() for a in [e, n] + data + (wts or [])]
    rec.check(before == after, "BlockMean.filter modified its input arrays")
    if case.get("args") == "ndarray":
        rec.check(array_args_unchanged(kw_a, snap_a), "BlockMean.filter modified a parameter array: %r" % ({k: kw_a[k].tolist() for k in snap_a},))
    if not case["w"]:
        # "no weights" spelled as one None per component (what train_test_split hands back): same behaviour as None (seed C10-7)
        got_n = call(rec, bm.filter, c_arg, d_arg, tuple([None] * ncomp))
        if case["unc"]:
            rec.check(raised(got_n) and isinstance(got_n.exc, ValueError), "uncertainty=True with weights=%r must raise ValueError, got %r"
                      % (tuple([None] * ncomp), got_n if raised(got_n) else type(got_n)))
        else:
            rec.check(raised(got) == raised(got_n) and (raised(got) or _same_nested(got, got_n)), "weights=(None, ...) gives a result different from weights=None")
    if case["unc"] and not case["w"]:
        rec.trivial = True
        rec.cls("refusal:uncertainty-without-weights")
        rec.check(raised(got) and isinstance(got.exc, ValueError), "uncertainty=True without weights must raise ValueError, got %r" % (type(got),))
        return
    if raised(got):
        return rec.check(False, "BlockMean.filter raised %r" % (got,))
    rec.check(isinstance(got, tuple) and len(got) == 3, "filter must return (coordinates, mean, weights)")
    gc, gm, gw = got
    if ncomp == 1:
        gm, gw = (gm,), (gw,)
    groups = B.group(labels)
    nocc = len(groups)
    shapes_ok = all(np.asarray(a).shape == (nocc,) for a in list(gc) + list(gm) + list(gw)) and len(gm) == ncomp and len(gw) == ncomp
    if not rec.check(shapes_ok, "one entry per occupied block and %d components expected" % ncomp):
        return
    # means and coordinates
    for k, (b, mem) in enumerate(groups.items()):
        for c in range(ncomp):
            wv = None if wts is None else [wts[c][i] for i in mem]
            want = B.reduce_exact("average", [data[c][i] for i in mem], wv)
            rec.check(B.close(gm[c][k], want), "block %d component %d: mean %r != %r" % (b, c, float(gm[c][k]), float(want)))
        if case["center"]:
            rec.check(abs(float(gc[0][k]) - ((b % 2) + 0.5) * csize) <= 4e-16 * sc and abs(float(gc[1][k]) - ((b // 2) + 0.5) * csize) <= 4e-16 * sc,
                      "block %d: wrong centre (%r, %r), block size %r" % (b, float(gc[0][k]), float(gc[1][k]), csize))
        else:
            rec.check(B.close(gc[0][k], B.reduce_exact("mean", [e[i] for i in mem])) and B.close(gc[1][k], B.reduce_exact("mean", [n[i] for i in mem])),
                      "block %d: coordinates are not the mean of its members" % b)
    # weights
    nontriv = False
    alts = []
    if not case["w"]:
        path = "variance"
        for ddof in (0, 1):
            alts.append([B.variance_to_weights_exact([B.var_exact([data[c][i] for i in mem], ddof=ddof) for mem in groups.values()])
                         for c in range(ncomp)])
    elif case["unc"]:
        path = "uncertainty"
        alts.append([B.variance_to_weights_exact([1 / sum(B.fr(wts[c][i]) for i in mem) for mem in groups.values()]) for c in range(ncomp)])
    else:
        path = "weighted-variance"
        alts.append([B.variance_to_weights_exact([B.var_exact([data[c][i] for i in mem], weights=[wts[c][i] for i in mem]) for mem in groups.values()])
                     for c in range(ncomp)])
    matched = None
    for ai, alt in enumerate(alts):
        if all(B.close(gw[c][k], alt[c][k], 1e-6 if big else 1e-10) for c in range(ncomp) for k in range(nocc)):
            matched = ai
            break
    rec.check(matched is not None, "%s path: weights %s match none of the documented alternatives %s (block members %s)"
              % (path, [np.asarray(w).tolist() for w in gw], [[[float(x) for x in comp] for comp in alt] for alt in alts], list(groups.values())))
    for c in range(ncomp):
        w = np.asarray(gw[c], dtype=float)
        rec.check(bool(np.all((w > 0) & (w <= 1))) and bool(np.any(w == 1.0)), "weights must lie in (0, 1] with a maximum of exactly 1: %s" % w.tolist())
    for alt in alts:
        for comp in alt:
            if len(set(comp)) > 1:
                nontriv = True
    if len(alts) == 2 and alts[0] != alts[1]:
        rec.cls("ddof-discriminating")
    rec.trivial = not nontriv
    rec.cls("blockmean/%s/%dc/%s" % (path, ncomp, "ddof%s" % matched if path == "variance" else "-"))
