"""
C09  BlockReduce returns one correctly reduced value per non-empty block.
"""
import itertools

import numpy as np

from mc.util import call, raised, array_args, array_args_unchanged, permuted_series
from models import blockref as B

ID = "C09"
LEVEL = "model_checking"
RULE = (
    "All multisets of n occupied sites (n = 1..3 quick, ..4 thorough; two interior sites per block, so membership is unambiguous) of "
    "a 2x2 (thorough: also 2x3) block layout, each in ascending and reversed input order, x data = distinct powers of two per point "
    "and component (1..3 components, so a reduced value identifies its member set) x weights {none, distinct per point and component} "
    "x reduction {mean, median, sum, min, max; weighted: np.average, weighted sum} x {spacing, shape} x region {given, inferred via "
    "two pin points} x center_coordinates x drop_coords (extra coordinate = 10 x point id) x input 1-D / 2-D C-ordered / 2-D Fortran-ordered or transposed view / mixed layouts / integer-dtype coordinates (both or easting only). quick crosses the full "
    "data-path axis with the default coordinate path and the full coordinate-path axis with two data paths; thorough crosses "
    "everything for the 2x2 layout. Non-trivial: a block with >= 2 members and >= 2 occupied blocks."
    " Added axes: mixed layouts, integer forms, far offsets, permuted-index Series, weights scaled by 1e-9 / 1e9 and exact zeros, parameter routes starting from another block definition, numpy-array parameters, four non-square layouts in the quick tier."
)
ASSUMPTIONS = ["pandas groupby is the trusted platform; the oracle groups with a Python dict and reduces in exact rational arithmetic",
               "values compared at 1e-12 relative (exact for sums/min/max/medians of powers of two)"]

RED_PLAIN = ["mean", "median", "sum", "min", "max"]
RED_W = ["average", "wsum"]


def bounds(tier, seed):
    return dict(layouts=["2x2"] + (["3x2"] if tier == "thorough" else []), n_points=[1, 3 if tier == "quick" else 4],
                reductions=RED_PLAIN + RED_W, components=[1, 3])


def _configs(tier, full, third=True):
    """quick: the data-path axis (reduction x components x weights) with the default coordinate path; centre coordinates with the
    non-idempotent reductions; the core coordinate-path axis (block spec x region x centre x drop x 1-D/2-D C/2-D Fortran) with two
    data paths; and - for a third of the placements (`third`) - the representation forms (mixed layouts, integer dtypes, large
    offsets) and a non-dividing spacing under both adjust modes.  thorough (`full`): everything crossed."""
    a_axis = [dict(red=r, ncomp=c, w=False) for r in RED_PLAIN for c in (1, 2, 3)] + \
             [dict(red=r, ncomp=c, w=True) for r in RED_W for c in (1, 2, 3)]
    b0 = dict(block="spacing", region="given", center=False, drop=True, form="1d")
    if full:
        for a in a_axis:
            for bk in ("spacing", "shape", "spacing_nd_s", "spacing_nd_r"):
                for rg in ("given", "inferred"):
                    for ce in (False, True):
                        for dr in (True, False):
                            for fm in ("1d", "2d", "2dF", "mixed", "int", "int_e", "far", "series"):
                                yield dict(a, block=bk, region=rg, center=ce, drop=dr, form=fm)
                            if a["w"]:
                                for wsc in (1e-9, 1e9):
                                    yield dict(a, block=bk, region=rg, center=ce, drop=dr, form="1d", wscale=wsc)
        return
    two = (dict(red="mean", ncomp=1, w=False), dict(red="average", ncomp=2, w=True))
    for a in a_axis:
        yield dict(a, **b0)
    for r in ("sum", "max", "median"):
        for dr in (True, False):
            yield dict(dict(red=r, ncomp=1, w=False), **dict(b0, center=True, drop=dr))
    yield dict(dict(red="wsum", ncomp=2, w=True), **dict(b0, center=True, drop=False))
    for bk in ("spacing", "shape"):
        for rg in ("given", "inferred"):
            for ce in (False, True):
                for dr in (True, False):
                    for fm in ("1d", "2d", "2dF"):
                        b = dict(block=bk, region=rg, center=ce, drop=dr, form=fm)
                        if b == b0:
                            continue
                        for a in two:
                            yield dict(a, **b)
    if third:
        for route in ("set_params", "attribute", "clone"):
            for ce in (False, True):
                for a in two + (dict(red="sum", ncomp=1, w=False),):
                    yield dict(a, block="spacing", region="given", center=ce, drop=not ce, form="1d", route=route)
        for fm in ("mixed", "int", "int_e", "far", "series"):
            for rg in ("given", "inferred"):
                for ce in (False, True):
                    for a in two:
                        yield dict(a, block="spacing", region=rg, center=ce, drop=True, form=fm)
        for r in RED_W:
            for rg in ("given", "inferred"):
                for ce in (False, True):
                    yield dict(red=r, ncomp=2, w=True, block="spacing", region=rg, center=ce, drop=not ce, form="1d", wzero=True)
        # weights of very small / very large magnitude (1/sigma^2 with sigma = 3e4, or 3e-5): seed C09-10, an absolute "all zero" test
        for r in RED_W:
            for c in (1, 2):
                for wsc in (1e-9, 1e9):
                    yield dict(red=r, ncomp=c, w=True, block="spacing", region="given", center=False, drop=True, form="1d", wscale=wsc)
                yield dict(red=r, ncomp=c, w=True, block="spacing", region="given", center=False, drop=True, form="series")
        for bk in ("spacing_nd_s", "spacing_nd_r"):
            for rg in ("given", "inferred"):
                for ce in (False, True):
                    for a in two:
                        yield dict(a, block=bk, region=rg, center=ce, drop=True, form="1d")
        # integer-dtype coordinates whose block CENTRES are not integers (blocks of 3.6 on the 4x layout), with reductions that keep
        # integers (round 8, seed C09-15: centres assigned into the reduced integer coordinate arrays)
        for r in ("sum", "max", "min", "median", "mean"):
            for fm in ("int", "int_e"):
                for dr in (True, False):
                    yield dict(red=r, ncomp=1, w=False, block="spacing_nd_r", region="given", center=True, drop=dr, form=fm)


def cases(tier, seed):
    """Every fifth case (rotating with the seed) hands region / shape / spacing to BlockReduce as numpy arrays (purity checked)."""
    for i, c in enumerate(_cases(tier, seed)):
        yield dict(c, args="ndarray") if (i + seed) % 5 == 0 and not c.get("route") else c


def _cases(tier, seed):
    for npts in (60000, 130001, 262145):
        yield dict(manypoints=npts)
    yield from _square_cases(tier, seed)
    # non-square block layouts (more columns than rows, more rows than columns, a single row / column): one and two occupied sites and
    # full occupancy, two data paths, block spec x centre coordinates (seed C09-11: a row stride taken from the wrong axis)
    two = (dict(red="mean", ncomp=1, w=False), dict(red="average", ncomp=2, w=True))
    for nbx, nby in ((3, 2), (2, 3), (4, 1), (1, 3)):
        nsites = 2 * nbx * nby
        places = [list(ms) for n in (1, 2) for ms in itertools.combinations_with_replacement(range(nsites), n)]
        places.append(list(range(0, nsites, 2)))
        places.append(list(range(nsites)))
        for ms in places:
            for a in two:
                for bk in ("spacing", "shape"):
                    for ce in (False, True):
                        for order in (("asc", "rev") if len(ms) > 1 else ("asc",)):
                            yield dict(layout=[nbx, nby], sites=ms, order=order, block=bk, region="given", center=ce, drop=True, form="1d", **a)


def _square_cases(tier, seed):
    layouts = [(2, 2)] if tier == "quick" else [(2, 2), (3, 2)]
    nmax = 3 if tier == "quick" else 4
    for nbx, nby in layouts:
        nsites = 2 * nbx * nby
        for n in range(1, nmax + 1):
            for ms in itertools.combinations_with_replacement(range(nsites), n):
                full = tier == "thorough" and (nbx, nby) == (2, 2) and n <= 3
                for cfg in _configs(tier, full, third=(sum(ms) % 3 == 0)):
                    for order in ("asc", "rev"):
                        if n == 1 and order == "rev":
                            continue
                        yield dict(layout=[nbx, nby], sites=list(ms), order=order, **cfg)


def _reduction(name):
    if name == "mean":
        return np.mean
    if name == "median":
        return np.median
    if name == "sum":
        return np.sum
    if name == "min":
        return np.min
    if name == "max":
        return np.max
    if name == "average":
        return np.average
    if name == "wsum":
        def wsum(values, weights=None):
            values = np.asarray(values, dtype=float)
            if weights is None:
                return values.sum()
            return (values * np.asarray(weights, dtype=float)).sum()
        return wsum
    raise ValueError(name)


def build(case):
    """Point cloud, data, weights and reference labels of a case (shared with C10)."""
    nbx, nby = case["layout"]
    S = B.sites(nbx, nby)
    order = case["sites"] if case["order"] == "asc" else case["sites"][::-1]
    pts = [S[i] for i in order]
    if case["region"] == "inferred":
        pts = [(0.0, 0.0, 0)] + pts + [(float(nbx), float(nby), nbx * nby - 1)]
    e = np.array([p[0] for p in pts])
    n = np.array([p[1] for p in pts])
    labels = [p[2] for p in pts]
    return e, n, labels


def run(case, rec):
    import verde as vd

    if case.get("manypoints"):
        # 60 000 ... 262 145 points on a 3 x 8 layout of unit blocks (round 8, seed C09-16: labels computed chunk by chunk): integer data, so
        # block sums are exact; a vectorised dictionary-free oracle (floor of the coordinates; points within 1e-9 of an edge are left out
        # of the input so that membership is unambiguous)
        npts = case["manypoints"]
        i = np.arange(npts, dtype=float)
        east = 8.0 * np.modf(i * 0.6180339887498949)[0]
        north = 3.0 * np.modf(i * 0.7548776662466927)[0]
        keep = (np.abs(east - np.round(east)) > 1e-9) & (np.abs(north - np.round(north)) > 1e-9)
        east, north = east[keep], north[keep]
        data = np.round(1000.0 * np.sin(np.arange(east.size) * 0.37)) + 5.0
        lab = (np.floor(north) * 8 + np.floor(east)).astype(int)
        for red, name in ((np.sum, "sum"), (np.max, "max")):
            got = call(rec, vd.BlockReduce(red, spacing=1.0, region=(0.0, 8.0, 0.0, 3.0)).filter, (east, north), data)
            if raised(got):
                return rec.check(False, "BlockReduce(%s).filter on %d points raised %r" % (name, east.size, got))
            (ge, gn), gd = got
            occ = np.unique(lab)
            if name == "sum":
                want = np.bincount(lab, weights=data, minlength=24)[occ]
                wce = np.bincount(lab, weights=east, minlength=24)[occ]
            else:
                want = np.array([data[lab == b].max() for b in occ])
                wce = np.array([east[lab == b].max() for b in occ])
            ok = np.asarray(gd).shape == want.shape and bool(np.all(np.asarray(gd) == want))
            rec.check(ok, "BlockReduce(%s) on %d points: block values %s differ from the exact ones %s" % (name, east.size, np.asarray(gd).ravel()[:6].tolist(), want[:6].tolist()))
            rec.check(np.asarray(ge).shape == wce.shape and bool(np.all(np.abs(np.asarray(ge) - wce) <= 1e-6 * np.abs(wce).max())), "BlockReduce(%s) on %d points: reduced eastings differ" % (name, east.size))
        rec.cls("many-points")
        return
    nbx, nby = case["layout"]
    e, n, labels = build(case)
    npts = e.size
    ncomp = case["ncomp"]
    data = [np.array([2.0 ** (p + 9 * c) for p in range(npts)]) for c in range(ncomp)]
    wts = None
    if case["w"]:
        wts = [np.array([[p + 1.0, (npts - p) + 0.5, 2.0 ** p][c] for p in range(npts)]) * case.get("wscale", 1.0) for c in range(ncomp)]
    if wts is not None and case.get("wzero"):
        # weights that are exactly zero for the first member of every block that has company (the block keeps a positive total):
        # such points still belong to their block, count for its coordinates and for an inferred region (seed C09-14)
        for mem in B.group(labels).values():
            if len(mem) >= 2:
                for w_ in wts:
                    w_[mem[0]] = 0.0
    extra = np.array([10.0 * p for p in range(npts)])
    form = case["form"]
    shp = (npts,)
    if form in ("2d",):
        shp = (2, npts // 2) if npts % 2 == 0 and npts >= 2 else (1, npts)
    scale = 1.0
    if form in ("int", "int_e"):
        # integer-valued coordinates (layout scaled by 4 so that the sites are integers) with an integer dtype for both
        # coordinates or for the easting only
        scale = 4.0
        e, n = e * 4.0, n * 4.0
    if form in ("2dF", "mixed"):
        # same element sequence in C (row-major) reading order, but Fortran memory layout / a transposed view
        shp = (2, npts // 2) if npts % 2 == 0 and npts >= 2 else (1, npts)
        rs = lambda a: np.asfortranarray(a.reshape(shp)) if npts % 4 else np.ascontiguousarray(a.reshape(shp).T).T
    else:
        rs = lambda a: a.reshape(shp)
    coords = (rs(e), rs(n), rs(extra))
    if form == "mixed":
        # arrays that do not share one memory layout: C-ordered coordinates, Fortran-ordered data, transposed-view weights
        shp = (2, npts // 2) if npts % 2 == 0 and npts >= 2 else (1, npts)
        coords = tuple(np.ascontiguousarray(a.reshape(shp)) for a in (e, n, extra))
    if form == "int":
        coords = (e.astype(np.int64), n.astype(np.int64), extra)
    if form == "int_e":
        coords = (e.astype(np.int64), n, extra)
    off_e = off_n = 0.0
    if form == "far":
        # large projected-coordinate magnitudes (same geometry shifted): exact in float64, not in float32
        off_e, off_n = 7460000.0, 430000.0
        e, n = e + off_e, n + off_n
        coords = (e, n, extra)
    kw = dict(center_coordinates=case["center"], drop_coords=case["drop"])
    csize = 1.0 * scale
    if case["block"] == "spacing":
        kw["spacing"] = 1.0 * scale
    elif case["block"] in ("spacing_nd_s", "spacing_nd_r"):
        # a spacing that does not divide the region: adjust='spacing' stretches it to the unit blocks, adjust='region' keeps blocks of
        # 0.9 (the sites keep their block either way, the centres differ); both modes in one process (seed C09-r2_1: a cache keyed without adjust)
        kw["spacing"] = 0.9 * scale
        kw["adjust"] = "spacing" if case["block"].endswith("_s") else "region"
        if kw["adjust"] == "region":
            csize = 0.9 * scale
    else:
        kw["shape"] = (nby, nbx)
    if case["region"] == "given":
        kw["region"] = (off_e, float(nbx) * scale + off_e, off_n, float(nby) * scale + off_n)
    red = _reduction(case["red"])
    d_arg = rs(data[0]) if ncomp == 1 else tuple(rs(d) for d in data)
    w_arg = None if wts is None else (rs(wts[0]) if ncomp == 1 else tuple(rs(w) for w in wts))
    if form == "mixed" and wts is not None:
        shp_ = coords[0].shape
        tv = lambda a: np.ascontiguousarray(a.reshape(shp_).T).T
        w_arg = tv(wts[0]) if ncomp == 1 else tuple(tv(w) for w in wts)
    if form == "series":
        # data and weights as columns of a sorted / shuffled table (integer index that is a permutation of 0..n-1), coordinates as
        # arrays: pairing must stay positional (seed C09-9)
        d_arg = permuted_series(data[0]) if ncomp == 1 else tuple(permuted_series(d, k) for k, d in enumerate(data))
        if wts is not None:
            w_arg = permuted_series(wts[0], 1) if ncomp == 1 else tuple(permuted_series(w, k + 1) for k, w in enumerate(wts))
    before = [a.tobytes() for a in (e, n, extra)] + [d.tobytes() for d in data] + ([w.tobytes() for w in wts] if wts else [])
    route = case.get("route")
    if route in ("set_params", "attribute"):
        other = dict(kw, center_coordinates=not kw["center_coordinates"], drop_coords=not kw["drop_coords"])
        # ... and ANOTHER block definition: everything the constructor saw is replaced afterwards (seed C09-7: a snapshot in __init__)
        if other.get("spacing") is not None:
            other["spacing"] = tuple(2.5 * v for v in np.atleast_1d(other["spacing"]).tolist() * 2)[:2]
        if other.get("shape") is not None:
            other["shape"] = tuple(int(v) + 1 for v in other["shape"])
        if other.get("region") is not None:
            other["region"] = tuple(v + d_ for v, d_ in zip(other["region"], (-3.0, 5.0, -1.0, 2.0)))
        else:
            other["region"] = (-100.0, 100.0, -100.0, 100.0)
        other["adjust"] = "region" if other.get("adjust", "spacing") == "spacing" else "spacing"
        reducer = call(rec, vd.BlockReduce, np.max, **other)
        if not raised(reducer):
            full_kw = dict(dict(spacing=None, shape=None, region=None, adjust="spacing"), **kw, reduction=red)
            if route == "set_params":
                reducer.set_params(**full_kw)
            else:
                for k_, v_ in full_kw.items():
                    setattr(reducer, k_, v_)
    elif route == "clone":
        from sklearn.base import clone
        reducer = call(rec, lambda: clone(vd.BlockReduce(red, **kw)))
    elif case.get("args") == "ndarray":
        kw_a, snap_a = array_args(kw)
        if np.isscalar(kw_a.get("spacing")):
            kw_a["spacing"] = np.float64(kw_a["spacing"])
        reducer = call(rec, vd.BlockReduce, red, **kw_a)
    else:
        reducer = call(rec, vd.BlockReduce, red, **kw)
    if raised(reducer):
        return rec.check(False, "BlockReduce() raised %r" % (reducer,))
    got = call(rec, reducer.filter, coords, d_arg, w_arg)
    if case.get("args") == "ndarray" and not raised(reducer):
        rec.check(array_args_unchanged(kw_a, snap_a), "BlockReduce.filter modified a parameter array: %r" % ({k: kw_a[k].tolist() for k in snap_a},))
    if raised(got):
        return rec.check(False, "BlockReduce.filter raised %r" % (got,))
    after = [a.tobytes() for a in (e, n, extra)] + [d.tobytes() for d in data] + ([w.tobytes() for w in wts] if wts else [])
    rec.check(before == after, "filter modified its input arrays")
    rec.check(isinstance(got, tuple) and len(got) == 2, "filter must return (coordinates, data)")
    gcoords, gdata = got
    if ncomp == 1:
        rec.check(not isinstance(gdata, tuple), "single component must come back as one array")
        gdata = (gdata,)
    else:
        rec.check(isinstance(gdata, tuple) and len(gdata) == ncomp, "expected %d data components" % ncomp)
    groups = B.group(labels)
    nocc = len(groups)
    ncoord = 2 if case["drop"] else 3
    rec.check(isinstance(gcoords, tuple) and len(gcoords) == ncoord, "expected %d coordinate arrays, got %d" % (ncoord, len(gcoords)))
    for arr in list(gcoords) + list(gdata):
        rec.check(np.asarray(arr).shape == (nocc,), "one entry per occupied block expected: shape %s, occupied %d" % (np.asarray(arr).shape, nocc))
    if any(np.asarray(arr).shape != (nocc,) for arr in list(gcoords) + list(gdata)):
        return
    cred = {"average": "mean", "wsum": "sum"}.get(case["red"], case["red"])
    for k, (b, members) in enumerate(groups.items()):
        for c in range(ncomp):
            wv = None if wts is None else [wts[c][i] for i in members]
            want = B.reduce_exact(case["red"], [data[c][i] for i in members], wv)
            rec.check(B.close(gdata[c][k], want), "block %d component %d: got %r, reduction over its members %s gives %r"
                      % (b, c, float(gdata[c][k]), members, float(want)))
        if case["center"]:
            bx, by = b % nbx, b // nbx
            ce_, cn_ = (bx + 0.5) * csize + off_e, (by + 0.5) * csize + off_n
            rec.check(abs(float(gcoords[0][k]) - ce_) <= 1e-9 * max(1.0, abs(ce_)) and abs(float(gcoords[1][k]) - cn_) <= 1e-9 * max(1.0, abs(cn_)),
                      "block %d: centre coordinates (%r, %r) != (%r, %r)" % (b, gcoords[0][k], gcoords[1][k], ce_, cn_))
        else:
            we = B.reduce_exact(cred, [e[i] for i in members])
            wn = B.reduce_exact(cred, [n[i] for i in members])
            rec.check(B.close(gcoords[0][k], we) and B.close(gcoords[1][k], wn),
                      "block %d: coordinates (%r, %r) are not the %s of its members (%r, %r)" % (b, gcoords[0][k], gcoords[1][k], cred, float(we), float(wn)))
        if not case["drop"]:
            wx = B.reduce_exact(cred, [extra[i] for i in members])
            rec.check(B.close(gcoords[2][k], wx), "block %d: extra coordinate %r != %r" % (b, gcoords[2][k], float(wx)))
    if case["red"] == "sum":
        for c in range(ncomp):
            rec.check(float(np.sum(gdata[c])) == float(np.sum(data[c])), "sum over blocks != input total")
    multi = any(len(m) > 1 for m in groups.values())
    rec.trivial = not (multi and nocc >= 2)
    rec.cls("%s/%dc/%s/%s/%s" % (case["red"], ncomp, case["block"], case["region"], "center" if case["center"] else "reduced"))
