"""
C04  Gridding results do not depend on array layout, point order or dtype; linear gridders are linear.

Pairs of executions: one case = (gridder configuration, point subset of the general-position integer
set G9, transformation family); inside the case every transformation of the family is executed and
compared with the base execution.
"""
import itertools
import math

import numpy as np

from mc.estimators import build, ncomp, build_via, ROUTES
from mc.util import permuted_series, call, raised
from models import numref as R

ID = "C04"
LEVEL = "model_checking"
RULE = (
    "Exhaustive product: gridder configuration (15: Spline exact / damped / fewer separate forces / as many separate forces as data, Trend 1-2, VectorSpline2D exact / damped, "
    "KNeighbors k=1 / k=3 mean / k=2 median, Linear, Cubic, a Chain, a Vector) x point set in the k-subsets (k = 4..5; thorough 4..6) of the "
    "general-position integer set G9 x transformation family {every permutation of the points; every layout in {2-D C, 2-D Fortran, strided "
    "view, reversed-twice view, pandas Series with a non-default index, list}; 1..2 ignored extra coordinates; integer dtype (int64, int32) "
    "for coordinates / data / query separately and together; query shape 0-d / 1-d / 2-d; linearity fit(a d1 + b d2) = a fit(d1) + b fit(d2) "
    "for (a,b) in {(1,1),(2,-3),(.5,1e3),(1e-11,-3e-12),(1e9,1)} over all pairs of basis data}. Non-trivial: every case (each runs >= 2 executions). quick takes all "
    "4-subsets for layout/dtype/linearity, a seed-rotated sixth of the 5-subsets, and permutations of a seed-rotated third of the 4-subsets."
    " Added axes: permuted-index pandas Series (all, data only, coordinates only, queries), force_coords containers, 3-D arrays, queries as columns / rows of one table, broadcastable query shapes (refused or equal to the broadcast prediction), near-meshgrid queries at (5e5, 7.5e6), 110 points in four other orders, parameter routes."
)
ASSUMPTIONS = ["layout / extra-coordinate / dtype transformations present the same element sequence: agreement required to 8 eps x scale "
               "(Cubic: SciPy's iterative gradient estimate is order dependent, 1e-4 x data range under permutations)",
               "permutations and linearity: conditioning-aware bound from the reference SVD; KNeighbors queries are chosen off every "
               "perpendicular bisector so that neighbour sets are unique"]

G9 = [(0, 0), (1, 10), (12, 3), (6, 8), (5, 11), (10, 9), (7, 11), (0, 6), (12, 9)]
CONFIGS = [
    ["Spline", {}],
    ["Spline", {"damping": 1e-2}],
    ["Spline", {"force_sep": True, "damping": 1e-3}],
    ["Spline", {"force_sep": "square", "damping": 1e-3}],
    ["Trend", {"degree": 1}],
    ["Trend", {"degree": 2}],
    ["VectorSpline2D", {"poisson": 0.5, "mindist_rel": 0.1}],
    ["VectorSpline2D", {"poisson": 0.0, "mindist_rel": 0.1, "damping": 1e-2}],
    ["KNeighbors", {"k": 1}],
    ["KNeighbors", {"k": 3}],
    ["KNeighbors", {"k": 2, "reduction": "median"}],
    ["Linear", {}],
    ["Cubic", {}],
    ["Chain", {"steps": [["Trend", {"degree": 1}], ["Spline", {"damping": 1e-2}]]}],
    ["Vector", {"components": [["Trend", {"degree": 1}], ["Spline", {}]]}],
]
LINEAR = {0, 1, 2, 3, 4, 5, 6, 7, 9, 11, 13, 14}  # configs that are linear in the data (KNeighbors with mean, Linear, ...)
QF = [(3.3, 4.7), (6.1, 6.9), (8.2, 5.3), (2.9, 7.6), (9.4, 8.1), (5.7, 9.2), (-1.3, 2.2), (13.1, 12.7), (6.6, 3.4)]
QI = [(3, 5), (6, 7), (8, 5), (3, 8), (9, 8), (0, 0), (12, 9), (6, 8), (7, 4)]
FSEP = [(2.0, 2.0), (9.0, 4.0), (4.0, 9.0)]
FSQ = [(2.0, 2.0), (9.0, 4.0), (4.0, 9.0), (11.0, 11.0), (1.0, 5.0), (7.0, 1.0)]  # as many forces as data points (square, non-symmetric Jacobian)


def bounds(tier, seed):
    return dict(configs=len(CONFIGS), point_set="G9 (9 integer points, no 3 collinear, no 4 co-circular)",
                subset_sizes=[4, 5] if tier == "quick" else [4, 6], families=["perm", "layout", "dtype", "qshape", "linear"])


def cases(tier, seed):
    ks = (4, 5) if tier == "quick" else (4, 5, 6)
    for k in ks:
        for si, s in enumerate(itertools.combinations(range(9), k)):
            if tier == "quick" and k == 5 and si % 6 != seed % 6:
                continue
            for ci in range(len(CONFIGS)):
                for fam in ("layout", "dtype", "qshape", "linear", "perm", "qgrid"):
                    if fam == "qgrid" and (k != 4 or si % 5 != seed % 5):
                        continue
                    if fam == "linear" and ci not in LINEAR:
                        continue
                    if fam == "perm" and tier == "quick" and (k == 5 or si % 3 != seed % 3):
                        continue
                    if fam == "perm" and tier == "thorough" and k == 6 and si % 4 != 0:
                        continue
                    yield dict(cfg=ci, pts=list(s), fam=fam)
    # 110 points (more than 100 rows in every system): the same data in another order gives the same predictions (seed C04-11: column
    # scales estimated from every n-th row)
    for ci in (1, 2, 4, 7, 9, 13):
        for perm in ("reverse", "roll", "interleave", "sorted_e"):
            yield dict(cfg=ci, pts=[], fam="perm_big", perm=perm)
    for ci in (4, 8, 9, 10, 11):   # Trend, KNeighbors k = 1 / 3 mean / 2 median, Linear
        yield dict(cfg=ci, pts=[], fam="int_big")


def _spec(ci):
    spec = [CONFIGS[ci][0], dict(CONFIGS[ci][1])]
    return spec


def _build(spec, ext, npts=4, route="ctor", fc_form="array"):
    kw = dict(spec[1])
    fs = kw.pop("force_sep", False)
    if fs:
        import verde as vd
        import warnings
        F_ = FSEP if fs is True else FSQ[:npts]
        fce, fcn = np.array([p[0] for p in F_]), np.array([p[1] for p in F_])
        if fc_form == "series":       # columns of a sorted / shuffled table: integer index that is a permutation of 0..n-1
            fce, fcn = permuted_series(fce), permuted_series(fcn)
        elif fc_form == "list":
            fce, fcn = fce.tolist(), fcn.tolist()
        elif fc_form == "2d" and fce.size % 2 == 0:
            fce, fcn = fce.reshape(2, -1), np.asfortranarray(fcn.reshape(2, -1))
        with warnings.catch_warnings():
            warnings.simplefilter("ignore")
            return vd.Spline(damping=kw.get("damping"), force_coords=(fce, fcn))
    return build_via([spec[0], kw], ext, route)


def _bound(spec, e, n, qe, qn, dnorm, ext, perm):
    """Admissible difference between two equivalent executions at the queries (vector over queries)."""
    name, kw = spec[0], spec[1]
    nq = qe.size
    if name in ("KNeighbors", "Linear"):
        return np.full(nq, 64 * R.EPS * dnorm)
    if name == "Cubic":
        return np.full(nq, (1e-4 if perm else 64 * R.EPS) * dnorm)
    if name == "Chain":
        return 2 * sum(_bound(s, e, n, qe, qn, dnorm, ext, perm) for s in kw["steps"])
    if name == "Vector":
        return np.max([_bound(s, e, n, qe, qn, dnorm, ext, perm) for s in kw["components"]], axis=0)
    damping = kw.get("damping")
    if name == "Trend":
        J, Jq = R.trend_design(e, n, kw["degree"]), R.trend_design(qe, qn, kw["degree"])
    elif name == "Spline":
        if kw.get("force_sep"):
            F_ = FSEP if kw["force_sep"] is True else FSQ[:e.size]
            fe = np.array([p[0] for p in F_]); fn = np.array([p[1] for p in F_])
        else:
            fe, fn = e, n
        md = kw.get("mindist_rel", 0.0) * ext
        J, Jq = R.spline_design(e, n, fe, fn, md), R.spline_design(qe, qn, fe, fn, md)
    else:
        md = kw.get("mindist_rel", 0.0) * ext
        J, Jq = R.elastic_design(e, n, e, n, md, kw["poisson"]), R.elastic_design(qe, qn, e, n, md, kw["poisson"])
    ref = R.solve(J, np.zeros(J.shape[0]), None, damping)
    sv = np.linalg.svd(ref["A"], compute_uv=False)
    smin = sv[-1] if sv[-1] > 0 else 1e-300
    cond = sv[0] / smin
    ceff = cond if damping is None else cond * cond
    rown = np.linalg.norm(Jq / ref["scale"], axis=1)
    if name == "VectorSpline2D":
        rown = np.maximum(rown[:nq], rown[nq:])
        dn = dnorm * math.sqrt(2)
    else:
        dn = dnorm
    return 256 * R.EPS * ceff * (dn * math.sqrt(J.shape[0]) / smin) * rown + 64 * R.EPS * dnorm


def _data(nc, npts):
    base = np.array([((i * i * 3 + 7 * i) % 11) - 4 for i in range(npts)], dtype=float)  # integer valued, non-constant
    if nc == 1:
        return [base]
    return [base, base[::-1] * 2.0 + 1.0][:nc]


def _run(rec, est_factory, coords, data, query, what):
    est = est_factory()
    d = data[0] if len(data) == 1 else tuple(data)
    fit = call(rec, est.fit, coords, d)
    if raised(fit):
        rec.check(False, "%s: fit raised %r" % (what, fit))
        return None
    p = call(rec, est.predict, query)
    if raised(p):
        rec.check(False, "%s: predict raised %r" % (what, p))
        return None
    return [np.asarray(c) for c in p] if isinstance(p, tuple) else [np.asarray(p)]


def _same(rec, base, other, tol, what, shape=None):
    if other is None or base is None:
        return
    rec.check(len(base) == len(other), "%s: number of components differs" % what)
    for b, o in zip(base, other):
        if shape is not None:
            rec.check(o.shape == shape, "%s: prediction shape %s != query shape %s" % (what, o.shape, shape))
        bf, of = b.ravel(), o.ravel()
        if bf.size != of.size:
            rec.check(False, "%s: size mismatch" % what)
            return
        nanb, nano = np.isnan(bf), np.isnan(of)
        rec.check(bool(np.array_equal(nanb, nano)), "%s: NaN pattern differs" % what)
        ok = ~(nanb | nano)
        if ok.any():
            err = np.abs(bf[ok] - of[ok])
            t = np.broadcast_to(tol, bf.shape)[ok]
            rec.ratio(float(np.max(err / t)))
            rec.check(bool(np.all(err <= t)), "%s: predictions differ by %.3g (bound %.3g): %s vs %s"
                      % (what, float(np.max(err)), float(np.min(t)), bf[ok][:4].tolist(), of[ok][:4].tolist()))


def run(case, rec):
    import pandas as pd

    spec = _spec(case["cfg"])
    pts = [G9[i] for i in case["pts"]]
    if case["fam"] == "perm_big":
        i = np.arange(110, dtype=float)
        be = 12.0 * np.modf(i * 0.6180339887498949)[0] + 0.01 * i
        bn = 12.0 * np.modf(i * 0.7548776662466927)[0] - 0.003 * i
        nc_ = ncomp(spec)
        bd = [3.0 * be - 2.0 * bn + 5.0 * np.sin(0.7 * be) * np.cos(0.9 * bn + k_) for k_ in range(nc_)]
        ix = {"reverse": np.arange(110)[::-1], "roll": np.roll(np.arange(110), 37), "interleave": np.concatenate([np.arange(0, 110, 2), np.arange(1, 110, 2)]),
              "sorted_e": np.argsort(be)}[case["perm"]]
        qe_ = np.array([q[0] for q in QF]); qn_ = np.array([q[1] for q in QF])
        fac = lambda: _build(spec, 12.0, 110, "ctor")
        a = _run(rec, fac, (be, bn), bd, (qe_, qn_), "110 points")
        b = _run(rec, fac, (be[ix], bn[ix]), [d_[ix] for d_ in bd], (qe_, qn_), "110 points, %s" % case["perm"])
        if a is None or b is None:
            return
        sc_ = max(float(np.max(np.abs(d_))) for d_ in bd)
        for x_, y_ in zip(a, b):
            err_ = float(np.nanmax(np.abs(x_ - y_)))
            rec.ratio(err_ / (1e-7 * sc_))
            rec.check(err_ <= 1e-7 * sc_, "%s on 110 points: predictions change by %.3g (data scale %.3g) when the points are given in %s order"
                      % (spec[0], err_, sc_, case["perm"]))
        rec.cls("%s/perm_big" % spec[0])
        return
    if case["fam"] == "int_big":
        # integer-dtype data and a query grid of more than 2^18 / k points (round 8, seed C04-15: block-wise gathering into a buffer of the
        # data's dtype): the prediction must equal the one for the same values as float64
        i = np.arange(60, dtype=float)
        be = 12.0 * np.modf(i * 0.6180339887498949)[0]
        bn = 12.0 * np.modf(i * 0.7548776662466927)[0]
        nc_ = ncomp(spec)
        bd = [np.round(7.0 * be - 3.0 * bn + 11.0 * k_) for k_ in range(nc_)]
        qe_, qn_ = np.meshgrid(np.linspace(-1, 13, 410), np.linspace(-1, 13, 330))
        fac = lambda: _build(spec, 12.0, 60, "ctor")
        a = _run(rec, fac, (be, bn), bd, (qe_, qn_), "float64 data, 135 300 query points")
        for it in (np.int64, np.int16):
            b = _run(rec, fac, (be, bn), [d_.astype(it) for d_ in bd], (qe_, qn_), "%s data, 135 300 query points" % np.dtype(it).name)
            if a is None or b is None:
                return
            for x_, y_ in zip(a, b):
                rec.check(x_.shape == y_.shape == qe_.shape, "prediction shape %s / %s != query shape %s" % (x_.shape, y_.shape, qe_.shape))
                err_ = float(np.nanmax(np.abs(x_ - y_)))
                rec.check(err_ <= 1e-9 * 200.0 and bool(np.array_equal(np.isnan(x_), np.isnan(y_))),
                          "%s: %s data give predictions that differ by %.3g from those for the same values as float64 on a 330 x 410 grid"
                          % (spec[0], np.dtype(it).name, err_))
        rec.cls("%s/int_big" % spec[0])
        return
    npts = len(pts)
    ext = 12.0
    e = np.array([p[0] for p in pts], dtype=float)
    n = np.array([p[1] for p in pts], dtype=float)
    nc = ncomp(spec) if not spec[1].get("force_sep") else 1
    data = _data(nc, npts)
    dnorm = max(float(np.max(np.abs(d))) for d in data)
    qe = np.array([q[0] for q in QF]); qn = np.array([q[1] for q in QF])
    # route of the parameters into the estimator (constructor / set_params / attribute / clone): one per case, rotating
    route = ROUTES[(case["cfg"] + len(case["fam"]) + sum(case["pts"])) % 4]
    factory = lambda: _build(spec, ext, npts, route)
    fam = case["fam"]
    if fam in ("layout", "dtype", "qshape") and (case["cfg"] + sum(case["pts"])) % 2 == 1:
        # half of these cases make ALL their executions on ONE estimator instance, refitted each time on the same points in another
        # representation (round 8, seed C04-16: a per-instance Jacobian cache that the solver scales in place); the others use a new
        # instance per execution
        _inst, _factory0 = [], factory
        factory = lambda: (_inst or _inst.append(_factory0()) or _inst)[0]
        rec.count("cases_reusing_one_instance", 1)
    rec.cls("%s/%s" % (spec[0], fam))
    tight = np.full(qe.size, 8 * R.EPS) * (dnorm + 1.0)
    base = _run(rec, factory, (e, n), data, (qe, qn), "base")
    if base is None:
        return
    scale_pred = max([float(np.nanmax(np.abs(b))) if np.isfinite(b).any() else 0.0 for b in base] + [dnorm])
    # "unchanged up to solver round-off": a solver may see another memory layout of the same numbers, so the admissible difference is
    # the conditioning-aware bound (never below 8 eps x scale)
    tight = np.maximum(np.full(qe.size, 8 * R.EPS * scale_pred), _bound(spec, e, n, qe, qn, dnorm, ext, False))
    if fam == "perm":
        tol = _bound(spec, e, n, qe, qn, dnorm, ext, True)
        for perm in itertools.permutations(range(npts)):
            if perm == tuple(range(npts)):
                continue
            ix = list(perm)
            other = _run(rec, factory, (e[ix], n[ix]), [d[ix] for d in data], (qe, qn), "permutation %s" % (perm,))
            _same(rec, base, other, tol, "permutation %s of the data points" % (perm,))
        return
    if fam == "layout":
        def as2d(a, order="C"):
            pad = (-a.size) % 2
            if pad:
                return None
            return np.array(a.reshape(2, -1), order=order)
        variants = {}
        if npts % 2 == 0:
            variants["2-D C"] = lambda a: as2d(a, "C")
            variants["2-D Fortran"] = lambda a: np.asfortranarray(a.reshape(2, -1))
            variants["2-D non-contiguous view"] = lambda a: np.repeat(a.reshape(2, -1), 2, axis=1)[:, ::2]
        else:
            variants["2-D row"] = lambda a: a.reshape(1, -1)
            variants["2-D column"] = lambda a: a.reshape(-1, 1)
        if npts % 4 == 0:
            # arrays with three dimensions (seed C04-14: point pairs built with dstack)
            variants["3-D"] = lambda a: a.reshape(2, 2, -1)
            variants["3-D Fortran"] = lambda a: np.asfortranarray(a.reshape(2, 2, -1))
        variants["3-D (1, 1, n)"] = lambda a: a.reshape(1, 1, -1)
        variants["3-D (n, 1, 1)"] = lambda a: a.reshape(-1, 1, 1)
        variants["strided view"] = lambda a: np.repeat(a, 3)[::3]
        variants["reversed-twice view"] = lambda a: a[::-1].copy()[::-1]
        variants["pandas Series (non-default index)"] = lambda a: pd.Series(a.copy(), index=np.arange(a.size)[::-1] * 3 + 5)
        # ... and with an index that is a PERMUTATION of 0..n-1, where access by label silently differs from access by position
        variants["pandas Series (permuted index)"] = lambda a: permuted_series(a.copy())
        for name, f in variants.items():
            other = _run(rec, factory, (f(e), f(n)), [f(d) for d in data], (qe, qn), "layout " + name)
            _same(rec, base, other, tight, "layout %s" % name)
        # Series for the data only / the coordinates only (alignment by label between a Series and an array must not happen)
        other = _run(rec, factory, (e, n), [permuted_series(d.copy(), 1) for d in data], (qe, qn), "data Series")
        _same(rec, base, other, tight, "data given as pandas Series with a permuted index, coordinates as arrays")
        other = _run(rec, factory, (permuted_series(e.copy()), permuted_series(n.copy(), 2)), data, (qe, qn), "coordinate Series")
        _same(rec, base, other, tight, "coordinates given as pandas Series with differently permuted indices, data as arrays")
        if spec[1].get("force_sep"):
            # the force coordinates of a Spline in other containers (seed C03-9)
            for fc_form in ("series", "list", "2d"):
                other = _run(rec, lambda: _build(spec, ext, npts, route, fc_form), (e, n), data, (qe, qn), "force_coords " + fc_form)
                _same(rec, base, other, tight, "force_coords given as %s" % fc_form)
        # ignored extra coordinates appended (fit and predict)
        for nx in (1, 2):
            extra = tuple(np.arange(npts, dtype=float) * (k + 1) * 100 for k in range(nx))
            qextra = tuple(np.full(qe.shape, 1e6 * (k + 1)) for k in range(nx))
            other = _run(rec, factory, (e, n) + extra, data, (qe, qn) + qextra, "%d extra coordinates" % nx)
            _same(rec, base, other, tight, "%d ignored extra coordinate(s) appended" % nx)
        # query as Fortran 2-D / Series
        other = _run(rec, factory, (e, n), data, (pd.Series(qe), pd.Series(qn)), "query Series")
        _same(rec, base, other, tight, "query given as pandas Series")
        other = _run(rec, factory, (e, n), data, (permuted_series(qe.copy()), permuted_series(qn.copy(), 1)), "query Series permuted")
        _same(rec, base, other, tight, "query given as pandas Series with permuted indices")
        return
    if fam == "dtype":
        qie = np.array([q[0] for q in QI], dtype=float); qin = np.array([q[1] for q in QI], dtype=float)
        base_i = _run(rec, factory, (e, n), data, (qie, qin), "base (integer-valued query)")
        tol_i = np.full(qie.size, 8 * R.EPS * scale_pred) + 8 * R.EPS * max([float(np.nanmax(np.abs(b))) if np.isfinite(b).any() else 0.0 for b in (base_i or [np.zeros(1)])])
        for it in (np.int64, np.int32, np.int16):   # int16: small integer types must not be computed in single precision (defect D10)
            nm = np.dtype(it).name
            other = _run(rec, factory, (e.astype(it), n.astype(it)), data, (qe, qn), "int coords")
            _same(rec, base, other, tight, "%s coordinates" % nm)
            other = _run(rec, factory, (e, n), [d.astype(it) for d in data], (qe, qn), "int data")
            _same(rec, base, other, tight, "%s data" % nm)
            other = _run(rec, factory, (e, n), data, (qie.astype(it), qin.astype(it)), "int query")
            _same(rec, base_i, other, tol_i, "%s query coordinates" % nm)
            other = _run(rec, factory, (e.astype(it), n.astype(it)), [d.astype(it) for d in data], (qie.astype(it), qin.astype(it)), "all int")
            _same(rec, base_i, other, tol_i, "%s coordinates, data and query" % nm)
        # integer coordinates of SURVEY magnitude (metres on a projected grid: offsets of 5e5 / 7e6, spacing 1e4) with an integer dtype:
        # squares and powers of coordinates or of their differences leave int32 (and, for Trend degree >= 3, int64) - defect D10
        es, ns_ = e * 1.0e4 + 5.0e5, n * 1.0e4 + 7.0e6
        qes, qns = qe * 1.0e4 + 5.0e5, qn * 1.0e4 + 7.0e6
        spec_s = [spec[0], dict(spec[1])]
        fac_s = lambda: _build(spec_s, ext * 1.0e4, npts, route)
        if not spec[1].get("force_sep"):
            base_s = _run(rec, fac_s, (es, ns_), data, (qes, qns), "base (survey magnitudes)")
            if base_s is not None:
                tol_s = np.maximum(tight, 1e-9 * scale_pred)
                for it in (np.int64, np.int32):
                    other = _run(rec, fac_s, (es.astype(it), ns_.astype(it)), data, (qes, qns), "%s survey coordinates" % np.dtype(it).name)
                    _same(rec, base_s, other, tol_s, "%s coordinates of survey magnitude (5e5 / 7e6, spacing 1e4)" % np.dtype(it).name)
        # integer-valued weights passed with an integer dtype (only estimators that use weights)
        if spec[0] in ("Spline", "Trend", "VectorSpline2D", "Chain") and (spec[1].get("damping") is not None or spec[0] in ("Trend", "Chain")):
            wv = np.array([1.0 + (i * 3) % 4 for i in range(npts)])
            wf = wv if nc == 1 else tuple(wv for _ in range(nc))

            def runw(w):
                est = factory()
                d = data[0] if len(data) == 1 else tuple(data)
                if raised(call(rec, est.fit, (e, n), d, w)):
                    rec.check(False, "fit with weights raised")
                    return None
                p = call(rec, est.predict, (qe, qn))
                return None if raised(p) else ([np.asarray(c) for c in p] if isinstance(p, tuple) else [np.asarray(p)])
            bw = runw(wf)
            for it in (np.int64, np.int32):
                wi = wv.astype(it) if nc == 1 else tuple(wv.astype(it) for _ in range(nc))
                _same(rec, bw, runw(wi), tight, "%s weights" % np.dtype(it).name)
        # float32 inputs of exactly representable values
        other = _run(rec, factory, (e.astype(np.float32).astype(float), n), data, (qe, qn), "float32 round trip")
        _same(rec, base, other, tight, "float32-representable coordinates")
        return
    if fam == "qgrid":
        # everything shifted to projected-coordinate magnitudes; the query is a 3 x 4 grid whose nodes are displaced by up to 0.3 - NOT a
        # meshgrid, although it is one to within 1e-5 of the coordinate values (seed C04-9): its prediction as a 2-D array (C and
        # Fortran order) must be the prediction at the same points raveled
        oe, on = 5.0e5, 7.5e6
        e2, n2 = e + oe, n + on
        ge, gn = np.meshgrid(np.linspace(1.0, 10.0, 4), np.linspace(1.5, 9.5, 3))
        ge = ge + 0.3 * np.sin(np.arange(12.0)).reshape(3, 4) + oe
        gn = gn + 0.3 * np.cos(2.0 * np.arange(12.0)).reshape(3, 4) + on
        est = factory()
        d = data[0] if len(data) == 1 else tuple(data)
        if raised(call(rec, est.fit, (e2, n2), d)):
            return rec.check(False, "fit at projected-coordinate magnitudes raised")
        flat = call(rec, est.predict, (ge.ravel(), gn.ravel()))
        if raised(flat):
            return rec.check(False, "predict raised %r" % (flat,))
        flat = [np.asarray(c) for c in flat] if isinstance(flat, tuple) else [np.asarray(flat)]
        for name, (a, b) in {"2-D": (ge, gn), "2-D Fortran": (np.asfortranarray(ge), np.asfortranarray(gn)), "2-D transposed": (ge.T.copy(), gn.T.copy())}.items():
            p = call(rec, est.predict, (a, b))
            if raised(p):
                rec.check(False, "predict with a %s query raised %r" % (name, p))
                continue
            comps = [np.asarray(c) for c in p] if isinstance(p, tuple) else [np.asarray(p)]
            for f_, c_ in zip(flat, comps):
                want = f_.reshape(3, 4).T if name == "2-D transposed" else f_.reshape(3, 4)
                tol_ = 1e-9 * (1.0 + float(np.nanmax(np.abs(want))) if np.isfinite(want).any() else 1.0)
                ok_ = c_.shape == a.shape and bool(np.all((np.abs(c_ - want) <= tol_) | (np.isnan(c_) & np.isnan(want))))
                rec.check(ok_, "near-regular %s query at (5e5, 7.5e6): prediction %s differs from the prediction at the same points raveled %s"
                          % (name, c_.ravel()[:4].tolist(), want.ravel()[:4].tolist()))
        return
    if fam == "qshape":
        # the query columns as views of ONE (n, 2) table, in either column order (seed C04-10)
        tab = np.column_stack([qe, qn]); tab_sw = np.column_stack([qn, qe])
        for name, (a, b) in {"columns of one table": (tab[:, 0], tab[:, 1]), "columns of one table, northing first": (tab_sw[:, 1], tab_sw[:, 0]),
                             "rows of one table": (np.vstack([qe, qn])[0], np.vstack([qe, qn])[1])}.items():
            other = _run(rec, factory, (e, n), data, (a, b), "query " + name)
            _same(rec, base, other, tight, "query given as %s" % name)
        for name, (a, b) in {
            "2-D": (qe.reshape(3, 3), qn.reshape(3, 3)),
            "2-D Fortran": (np.asfortranarray(qe.reshape(3, 3)), np.asfortranarray(qn.reshape(3, 3))),
            "column": (qe.reshape(-1, 1), qn.reshape(-1, 1)),
        }.items():
            est = factory()
            d = data[0] if len(data) == 1 else tuple(data)
            if raised(call(rec, est.fit, (e, n), d)):
                return rec.check(False, "fit raised")
            p = call(rec, est.predict, (a, b))
            if raised(p):
                rec.check(False, "predict with %s query raised %r" % (name, p))
                continue
            other = [np.asarray(c) for c in p] if isinstance(p, tuple) else [np.asarray(p)]
            _same(rec, base, other, tight, "query shape %s" % name, shape=a.shape)
        est = factory()
        d = data[0] if len(data) == 1 else tuple(data)
        call(rec, est.fit, (e, n), d)
        # easting and northing of DIFFERENT but broadcastable shapes: either refused with an error or the prediction on the broadcast
        # arrays, never something else (seed C04-7: a square row x column query silently answered along its diagonal)
        row_e, col_n = qe[:3].reshape(1, 3).copy(), qn[3:6].reshape(3, 1).copy()
        for name, (a, b) in {"row x column": (row_e, col_n), "column x row": (qe[:3].reshape(3, 1).copy(), qn[3:6].reshape(1, 3).copy()),
                             "row(1,2) x column(3,1)": (row_e[:, :2].copy(), col_n), "scalar x column": (np.array(float(qe[0])), col_n),
                             "row x scalar": (row_e, np.array(float(qn[4]))), "1-D x column": (qe[:3].copy(), col_n)}.items():
            p = call(rec, est.predict, (a, b))
            if raised(p):
                rec.count("broadcast_queries_refused", 1)
                rec.check(isinstance(p.exc, (ValueError, TypeError, IndexError)), "predict with a %s query raised %r" % (name, p))
                continue
            ba, bb = [np.array(x) for x in np.broadcast_arrays(a, b)]
            ref_ = call(rec, est.predict, (ba, bb))
            if raised(ref_):
                rec.check(False, "predict on the broadcast arrays raised %r" % (ref_,))
                continue
            rec.count("broadcast_queries_answered", 1)
            got_c = [np.asarray(c) for c in p] if isinstance(p, tuple) else [np.asarray(p)]
            ref_c = [np.asarray(c) for c in ref_] if isinstance(ref_, tuple) else [np.asarray(ref_)]
            t_ = float(np.max(tight))
            for g_, r_ in zip(got_c, ref_c):
                ok_ = g_.shape == ba.shape and bool(np.all((np.abs(g_ - r_) <= t_) | (np.isnan(g_) & np.isnan(r_))))
                rec.check(ok_, "%s query: prediction of shape %s %s is not the prediction on the broadcast arrays (shape %s) %s"
                          % (name, g_.shape, g_.ravel()[:4].tolist(), ba.shape, r_.ravel()[:4].tolist()))
        for i in (0, 4, 6):
            p = call(rec, est.predict, (np.array(qe[i]), np.array(qn[i])))
            if raised(p):
                rec.check(False, "predict with 0-d query raised %r" % (p,))
                continue
            comps = [np.asarray(c) for c in p] if isinstance(p, tuple) else [np.asarray(p)]
            for b0, c in zip(base, comps):
                rec.check(c.shape == (), "0-d query must give a 0-d prediction, got shape %s" % (c.shape,))
                if c.shape == ():
                    both_nan = np.isnan(b0[i]) and np.isnan(c)
                    rec.check(both_nan or abs(float(c) - float(b0[i])) <= tight[0], "0-d query differs from the 1-d result")
        return
    if fam == "linear":
        tol = _bound(spec, e, n, qe, qn, 1.0, ext, False)
        nrow = nc * npts
        basis = []
        for r in range(nrow):
            v = np.zeros(nrow); v[r] = 1.0
            basis.append([v[c * npts:(c + 1) * npts] for c in range(nc)])
        preds = [_run(rec, factory, (e, n), b, (qe, qn), "basis %d" % i) for i, b in enumerate(basis)]
        if any(p is None for p in preds):
            return
        for (i, j) in itertools.combinations(range(nrow), 2):
            for (a, b) in ((1.0, 1.0), (2.0, -3.0), (0.5, 1e3), (1e-11, -3e-12), (1e9, 1.0)):
                comb = [a * x + b * y for x, y in zip(basis[i], basis[j])]
                got = _run(rec, factory, (e, n), comb, (qe, qn), "a d%d + b d%d" % (i, j))
                want = [a * x + b * y for x, y in zip(preds[i], preds[j])]
                _same(rec, want, got, tol * (abs(a) + abs(b)) * 2, "linearity fit(%g d%d + %g d%d)" % (a, i, b, j))
        return
    raise ValueError(fam)
