"""
C19  load_surfer returns the file's grid faithfully or refuses it.

Fault enumeration: files produced by an independent reference writer in every combination of a
finite family of shapes, regions, value patterns, blank-cell subsets, sentinels, formattings, dtypes
and sources; every single header corruption; every wrapped-row layout.  Oracle: the written grid
(or, for corrupted headers, an independent 40-line reader applied to the corrupted file).
"""
import builtins
import io
import itertools
import math
import os
import tempfile
from fractions import Fraction as F

import numpy as np

from mc.util import call, raised

ID = "C19"
LEVEL = "fault_enumeration"
RULE = (
    "Exhaustive product: shape (n_n, n_e) in {2,3}x{2,3,4} x 3 regions x every subset of blanked cells (<= 6 cells; all singles and "
    "pairs beyond; incl. all-blank) x sentinel {1.70141e38, 1.71e38, 3e38} x 7 formattings (separators, leading/trailing blanks, "
    "%g / %.17e, CRLF, trailing newline or blank line) x dtype {float64, float32} x source {path, open text file, StringIO}; every "
    "wrapped-row layout (line width 1..n_e-1); every single header corruption (counts swapped / +-1, range lines exchanged, each "
    "bound shifted by the extent, z-range shifted, each header line missing). After every call the files opened by the function "
    "must be closed. Non-trivial: at least one finite cell; distinct = distinct file text x dtype x source."
    " Added axes: wrapped rows, eight formatting styles incl. blank lines, three input sources, open-handle counter, regions at projected-coordinate magnitudes, header faults incl. swapped zMin / zMax, also on wrapped bodies; body rows with a value missing or added; header numbers without a leading zero."
)
ASSUMPTIONS = ["the reference writer follows verde's documented header convention: id / n_northing n_easting / south north / west east / zmin zmax",
               "for the all-blank file (header range undefined) both a correct load and a refusal are accepted"]

VALS = [-7.5, 0.0, 1.0, 1.0, 2.5e10, -1e-3, 3.0, 4.25, -2.0, 17.0, 1e-30, 6.0]
REGIONS = [[2.0, 2000.0, 1.0, 1000.0], [-10.0, -9.5, -0.25, 7.75], [0.0, 1.0, 100.0, 101.5],
           # projected coordinates: extents of 1e-6 ... 1e-9 of the coordinate values (seed C19-10: a relative "zero width" test)
           [7500000.0, 7500020.0, 500000.0, 500004.0], [1.0e6, 1.0e6 + 0.003, -1.0e6 - 0.002, -1.0e6]]
SENT = ["1.70141e38", "1.71e38", "3e38"]
BIG_OK = 1.70140e38
NFMT = 8   # style 7: blank and whitespace-only lines between the header and the body and between rows (seed C19-14)


def bounds(tier, seed):
    return dict(shapes="{2,3}x{2,3,4}", regions=REGIONS, sentinels=SENT, formats=NFMT, dtypes=["float64", "float32"],
                sources=["path", "file", "stringio"])


def cases(tier, seed):
    for nn in ((2, 3) if tier == "quick" else (2, 3, 4, 5)):
        for ne in ((2, 3, 4) if tier == "quick" else (2, 3, 4, 5, 7)):
            ncell = nn * ne
            if ncell <= 6:
                subs = [list(s) for k in range(0, ncell + 1) for s in itertools.combinations(range(ncell), k)]
            else:
                subs = [list(s) for k in range(0, 3) for s in itertools.combinations(range(ncell), k)]
            for ri in range(len(REGIONS)):
                for sub in subs:
                    for fmt in range(NFMT):
                        for dt in ("float64", "float32"):
                            for src in ("stringio", "path", "file"):
                                if tier == "quick" and len(sub) > 2 and (fmt + len(sub) + ri) % 3 and len(sub) != ncell:
                                    # quick: larger blank subsets under one formatting in three (all are in thorough)
                                    continue
                                sents = SENT if sub else SENT[:1]
                                for si, _ in enumerate(sents):
                                    if si and (fmt not in (0, 1) or src == "file"):
                                        continue
                                    yield dict(kind="good", nn=nn, ne=ne, region=ri, blank=sub, sent=si, fmt=fmt, dtype=dt, src=src,
                                               big=(len(sub) == 1 and fmt == 0))
                for width in range(1, ne):
                    for src in ("stringio", "path"):
                        yield dict(kind="wrapped", nn=nn, ne=ne, region=ri, width=width, src=src)
                for fault in ("swap_counts", "nn+1", "nn-1", "ne+1", "ne-1", "swap_range_lines", "shift_s", "shift_n", "shift_w",
                              "shift_e", "z_up", "z_down", "z_swap", "z_swap_shift", "zmin_up", "zmax_down", "drop0", "drop1", "drop2", "drop3", "drop4"):
                    for blank in ([], [1]):
                        for src in ("stringio", "path"):
                            yield dict(kind="fault", nn=nn, ne=ne, region=ri, fault=fault, blank=blank, src=src)
                    # the same header faults on a body whose rows are wrapped over several lines (seed C19-12: a recovery path for
                    # wrapped rows that skips the range validation)
                    for width in range(1, ne):
                        yield dict(kind="fault", nn=nn, ne=ne, region=ri, fault=fault, blank=[], src="stringio", wrap=width)
                # body faults: a row with one value missing / one value too many (the file must be refused whichever value it is), and
                # header numbers written without a leading zero (".5", "-.25": legal, the file must load) - round 8, seeds C19-15 / C19-16
                for fault in ["short_row%d" % r_ for r_ in range(nn)] + ["short_first_token%d" % r_ for r_ in range(1, nn)] + ["long_row%d" % (nn - 1)] + ["hdr_noleadzero"]:
                    for src in ("stringio", "path"):
                        yield dict(kind="fault", nn=nn, ne=ne, region=ri, fault=fault, blank=[], src=src)


# ---------------------------------------------------------------- reference writer / reader
def _grid(nn, ne, blank, big=False):
    vals = [[VALS[(i * ne + j) % len(VALS)] + (100.0 * ((i * ne + j) // len(VALS))) for j in range(ne)] for i in range(nn)]
    if big:
        # the largest value that is NOT a blank sentinel
        c = (blank[0] + 1) % (nn * ne)
        vals[c // ne][c % ne] = BIG_OK
    return vals


def _fmtnum(v, style):
    return ("%.17e" % v) if style == 1 else ("%.17g" % v if style in (4, 5) else repr(float(v)) if style == 6 else "%g" % v)


def _write(nn, ne, region, vals, blank, sent, style, header=None, wrap=None):
    w, e, s, n = region
    finite = [vals[i][j] for i in range(nn) for j in range(ne) if (i * ne + j) not in blank]
    zmin, zmax = (min(finite), max(finite)) if finite else (0.0, 0.0)
    head = ["DSAA", "%d %d" % (nn, ne), "%.17g %.17g" % (s, n), "%.17g %.17g" % (w, e), "%.17g %.17g" % (zmin, zmax)]
    if header is not None:
        head = header(head, dict(nn=nn, ne=ne, w=w, e=e, s=s, n=n, zmin=zmin, zmax=zmax))
    sep = {0: " ", 1: "\t", 2: "   ", 3: " ", 4: " ", 5: "  ", 6: " ", 7: " "}[style]
    lead = "        " if style == 2 else ""
    trail = "  " if style == 2 else ""
    eol = "\r\n" if style == 4 else "\n"
    lines = [lead + h + trail for h in head]
    if style == 7:
        lines += ["", "   "]
    for i in range(nn):
        if style == 7 and i == 1:
            lines.append("")
        toks = [sent if (i * ne + j) in blank else _fmtnum(vals[i][j], style) for j in range(ne)]
        if wrap:
            for k in range(0, ne, wrap):
                lines.append(lead + sep.join(toks[k:k + wrap]) + trail)
        else:
            lines.append(lead + sep.join(toks) + trail)
    text = eol.join(lines)
    if style != 3:
        text += eol
    if style == 5:
        text += eol
    return text


def ref_read(text):
    """Independent reader of the documented layout; returns dict or raises ValueError for a malformed file."""
    lines = text.replace("\r\n", "\n").split("\n")
    while lines and not lines[-1].strip():
        lines.pop()
    if len(lines) < 6:
        raise ValueError("too short")
    gid = lines[0].strip()
    cnt = lines[1].split()
    if len(cnt) != 2:
        raise ValueError("counts")
    nn, ne = int(cnt[0]), int(cnt[1])
    sn = [float(t) for t in lines[2].split()]
    we = [float(t) for t in lines[3].split()]
    zz = [float(t) for t in lines[4].split()]
    if len(sn) != 2 or len(we) != 2 or len(zz) != 2:
        raise ValueError("ranges")
    body = [[float(t) for t in ln.split()] for ln in lines[5:] if ln.strip()]
    if len(body) != nn or any(len(r) != ne for r in body):
        raise ValueError("shape")
    finite = [v for r in body for v in r if v < 1.70141e38]
    if finite:
        lo, hi = min(finite), max(finite)
        for a, b in ((lo, zz[0]), (hi, zz[1])):
            if abs(a - b) > 1e-8 + 1e-5 * abs(b) + 1e-5 * abs(a):
                raise ValueError("range")
    return dict(gid=gid, nn=nn, ne=ne, s=sn[0], n=sn[1], w=we[0], e=we[1], body=body)


# ---------------------------------------------------------------- running one file through verde
class _OpenCounter:
    def __init__(self):
        self.opened = []
        self.orig = builtins.open

    def __enter__(self):
        def opener(*a, **k):
            fh = self.orig(*a, **k)
            self.opened.append(fh)
            return fh
        builtins.open = opener
        return self

    def __exit__(self, *exc):
        builtins.open = self.orig


def _load(rec, vd, text, src, dtype):
    """Returns (result_or_Raised, info about handles)."""
    path = None
    fh = None
    if src == "stringio":
        arg = io.StringIO(text)
    else:
        path = os.path.join(tempfile.gettempdir(), "verif_c19_%d.grd" % os.getpid())
        with open(path, "w", newline="") as out:
            out.write(text)
        if src == "file":
            fh = open(path, "r")
            arg = fh
        else:
            arg = path
    try:
        with _OpenCounter() as oc:
            got = call(rec, vd.load_surfer, arg, dtype=dtype)
        leaked = [f for f in oc.opened if not f.closed]
        rec.check(not leaked, "load_surfer left %d file(s) it opened unclosed (%s)" % (len(leaked), "error path" if raised(got) else "success path"))
        for f in leaked:
            f.close()
        if src == "path":
            rec.check(len(oc.opened) >= 1 or raised(got), "path given but no file was opened?")
        if fh is not None:
            rec.check(not fh.closed, "load_surfer closed a file object owned by the caller")
    finally:
        if fh is not None:
            fh.close()
        if path is not None and os.path.exists(path):
            os.unlink(path)
    return got, path


def _compare(rec, got, exp, dtype, path):
    """exp: dict from ref_read of the very text that was loaded."""
    import xarray as xr

    if not rec.check(isinstance(got, xr.DataArray), "load_surfer must return a DataArray, got %r" % type(got)):
        return
    rec.check(tuple(got.dims) == ("northing", "easting"), "dims %r" % (got.dims,))
    nn, ne = exp["nn"], exp["ne"]
    if not rec.check(got.shape == (nn, ne), "shape %s != file shape %s" % (got.shape, (nn, ne))):
        return
    for name, lo, hi, k in (("northing", exp["s"], exp["n"], nn), ("easting", exp["w"], exp["e"], ne)):
        c = np.asarray(got.coords[name].values, dtype=float)
        want = [F(lo) + i * (F(hi) - F(lo)) / (k - 1) for i in range(k)]
        tol = F(4 * max(math.ulp(abs(lo)), math.ulp(abs(hi)), 5e-324))
        rec.check(c.shape == (k,) and all(abs(F(float(a)) - b) <= tol for a, b in zip(c, want)),
                  "%s coordinates %s are not evenly spaced over the header range (%r, %r)" % (name, c.tolist(), lo, hi))
        rec.check(c.shape == (k,) and float(c[0]) == lo and float(c[-1]) == hi, "%s does not span the header range exactly" % name)
    vals = np.asarray(got.values)
    rec.check(str(vals.dtype) == dtype, "dtype %s != requested %s" % (vals.dtype, dtype))
    ok = True
    for i in range(nn):
        for j in range(ne):
            v = exp["body"][i][j]
            g = vals[i, j]
            if v >= 1.70141e38:
                if not np.isnan(g):
                    ok = False
            else:
                w = np.dtype(dtype).type(v)
                if not (g == w):
                    ok = False
    rec.check(ok, "values differ from the file (row by row, blanks -> NaN): got %s expected %s" % (vals.tolist(), exp["body"]))
    rec.check(got.attrs.get("gridID") == exp["gid"], "gridID attr %r != %r" % (got.attrs.get("gridID"), exp["gid"]))
    if path is not None:
        rec.check(got.attrs.get("file") == path, "file attr %r != %r" % (got.attrs.get("file"), path))
    else:
        rec.check("file" not in got.attrs, "file attr present without a path")


def run(case, rec):
    import verde as vd

    nn, ne = case["nn"], case["ne"]
    region = REGIONS[case["region"]]
    kind = case["kind"]
    if kind == "good":
        vals = _grid(nn, ne, case["blank"], case.get("big", False))
        text = _write(nn, ne, region, vals, set(case["blank"]), SENT[case["sent"]], case["fmt"])
        exp = ref_read(text)
        got, path = _load(rec, vd, text, case["src"], case["dtype"])
        allblank = len(case["blank"]) == nn * ne
        rec.key = [text, case["dtype"], case["src"]]
        if allblank:
            rec.trivial = True
            rec.cls("all-blank:" + ("refused" if raised(got) else "loaded"))
            if not raised(got):
                _compare(rec, got, exp, case["dtype"], path if case["src"] == "path" else None)
            return
        if raised(got):
            return rec.check(False, "well-formed file refused: %r\n%s" % (got, text))
        _compare(rec, got, exp, case["dtype"], path if case["src"] == "path" else None)
        rec.cls("good/blanks=%d/fmt=%d/%s/%s" % (len(case["blank"]), case["fmt"], case["dtype"], case["src"]))
        return
    if kind == "wrapped":
        vals = _grid(nn, ne, [])
        text = _write(nn, ne, region, vals, set(), SENT[0], 0, wrap=case["width"])
        plain = ref_read(_write(nn, ne, region, vals, set(), SENT[0], 0))
        got, path = _load(rec, vd, text, case["src"], "float64")
        rec.key = [text, case["src"]]
        if raised(got):
            rec.cls("wrapped:refused")
        else:
            rec.cls("wrapped:loaded")
            _compare(rec, got, plain, "float64", path if case["src"] == "path" else None)
        return
    if kind == "fault":
        fault = case["fault"]
        vals = _grid(nn, ne, case["blank"])

        def corrupt(head, h):
            head = list(head)
            span = (h["zmax"] - h["zmin"]) * 0.1 + 1.0
            if fault == "swap_counts":
                head[1] = "%d %d" % (h["ne"], h["nn"])
            elif fault in ("nn+1", "nn-1", "ne+1", "ne-1"):
                d = 1 if fault.endswith("+1") else -1
                a, b = (h["nn"] + d, h["ne"]) if fault.startswith("nn") else (h["nn"], h["ne"] + d)
                head[1] = "%d %d" % (a, b)
            elif fault == "swap_range_lines":
                head[2], head[3] = head[3], head[2]
            elif fault == "shift_s":
                head[2] = "%.17g %.17g" % (h["s"] - (h["n"] - h["s"]), h["n"])
            elif fault == "shift_n":
                head[2] = "%.17g %.17g" % (h["s"], h["n"] + (h["n"] - h["s"]))
            elif fault == "shift_w":
                head[3] = "%.17g %.17g" % (h["w"] - (h["e"] - h["w"]), h["e"])
            elif fault == "shift_e":
                head[3] = "%.17g %.17g" % (h["w"], h["e"] + (h["e"] - h["w"]))
            elif fault == "z_up":
                head[4] = "%.17g %.17g" % (h["zmin"] + span, h["zmax"] + span)
            elif fault == "z_down":
                head[4] = "%.17g %.17g" % (h["zmin"] - span, h["zmax"] - span)
            elif fault == "z_swap":
                head[4] = "%.17g %.17g" % (h["zmax"], h["zmin"])
            elif fault == "z_swap_shift":
                head[4] = "%.17g %.17g" % (h["zmax"] + span, h["zmin"] + span)
            elif fault == "zmin_up":
                head[4] = "%.17g %.17g" % (h["zmin"] + span, h["zmax"])
            elif fault == "zmax_down":
                head[4] = "%.17g %.17g" % (h["zmin"], h["zmax"] - span)
            elif fault.startswith("drop"):
                del head[int(fault[4:])]
            return head

        if fault == "hdr_noleadzero":
            region = [-0.25 - 0.5 * case["region"], 0.5, 0.125, 0.875 + case["region"]]
            vals = [[v_ * 0.001 for v_ in r_] for r_ in vals]
            nolead = lambda t_: ("-" + t_[2:]) if t_.startswith("-0.") else (t_[1:] if t_.startswith("0.") else t_)
            hdrfmt = lambda head, h: head[:2] + [" ".join(nolead("%.17g" % float(t_)) for t_ in ln_.split()) for ln_ in head[2:]]
            text = _write(nn, ne, region, vals, set(), SENT[0], 0, header=hdrfmt)
        else:
            text = _write(nn, ne, region, vals, set(case["blank"]), SENT[0], 0, header=corrupt, wrap=case.get("wrap"))
        if fault.startswith(("short_row", "short_first_token", "long_row")):
            ls_ = text.split("\n")
            r_ = 5 + int(fault.rstrip("0123456789") and fault[len(fault.rstrip("0123456789")):])
            toks_ = ls_[r_].split(" ")
            if fault.startswith("short_row"):
                toks_ = toks_[:-1]
            elif fault.startswith("short_first_token"):
                toks_ = toks_[1:]
            else:
                toks_ = toks_ + ["3.0"]
            ls_[r_] = " ".join(toks_)
            text = "\n".join(ls_)
        try:
            exp = ref_read(text)
        except ValueError as exc:
            exp = None
            why = str(exc)
        got, path = _load(rec, vd, text, case["src"], "float64")
        rec.key = [text, case["src"]]
        if exp is None:
            rec.check(raised(got), "header fault %s (%s) contradicts the body but a grid was returned:\n%s\n-> %r"
                      % (fault, why, text, None if raised(got) else np.asarray(got.values).tolist()))
            rec.cls("fault:%s:must-refuse" % fault)
        else:
            # the corrupted file is itself a consistent file describing another grid: it must be read as such
            if raised(got):
                rec.check(False, "consistent file (after %s) refused: %r" % (fault, got))
            else:
                _compare(rec, got, exp, "float64", path if case["src"] == "path" else None)
            rec.cls("fault:%s:consistent" % fault)
        return
    raise ValueError(kind)
