"""
C16  Hull masking and grid projection keep values only where data constrain them.
"""
import itertools
import math
from fractions import Fraction as F

import numpy as np

from mc.util import call, raised, pick_frames
from models import gridref as G

ID = "C16"
LEVEL = "model_checking"
RULE = (
    "convexhull_mask: data = every k-subset (k = 3..4; thorough 3..5) of the 4x4 integer lattice with a non-degenerate hull x all 121 "
    "queries of the half-unit lattice around it x frames {scale 1, 1e7, 1e-3 with offset 5e3, offset 1e7} x form {array 2-D, array 1-D, "
    "grid}; oracle = monotone-chain hull with exact integer orientation tests (strictly inside -> True, strictly outside -> False, "
    "boundary -> either). project_grid: grid shapes {2..5}^2 (non-square included) with asymmetric values 100 n + e x NaN-hole pattern "
    "{none, one cell, interior block, corner} x projection {affine, monotone non-linear} x method {linear, nearest, cubic} x antialias "
    "x {default region/shape, explicit spacing, explicit region inside the data} x named/unnamed; Dataset and 1-d/3-d inputs must raise. "
    "Non-trivial: hulls with an interior lattice query / grids with >= 3 valid cells."
    " Added axes: projected hull forms (linear and the exact non-linear (e+2)^2 with a 41 x 21 query lattice and clouds with points along oblique sides), integer forms, float32 queries at 1e7 offsets, DataArray built three ways with / without a 2-D extra coordinate, exact nearest-neighbour value oracle incl. anti-aliasing block means."
)
ASSUMPTIONS = ["cases in which Qhull itself refuses the point set (collinear / fewer than 3 valid cells) are implementation-only failures, counted "
               "as outside the space", "nodes within half a cell of the hull boundary may go either way when antialiasing averages the data"]

L44 = [(x, y) for y in range(4) for x in range(4)]
FRAMES = [[1.0, 0.0], [1e7, 0.0], [1e-3, 5e3], [1.0, 1e7]]


def bounds(tier, seed):
    return dict(frames=pick_frames(FRAMES, tier, seed), subset_sizes=[3, 4 if tier == "quick" else 5], queries="11x11 half-unit lattice")


def cases(tier, seed):
    nbuild = seed
    ks = (3, 4) if tier == "quick" else (3, 4, 5)
    for fr in pick_frames(FRAMES, tier, seed):
        for k in ks:
            for sub in itertools.combinations(range(16), k):
                for form in ("array2d", "array1d", "grid", "grid_desc", "int", "int_e", "F", "proj_array", "proj_grid"):
                    if form != "array2d" and (sum(sub) % 4 != 0):
                        continue
                    if form in ("int", "int_e") and fr[0] * 0.5 != int(fr[0] * 0.5) and fr != [1.0, 0.0] and fr != [1.0, 1e7]:
                        continue
                    yield dict(kind="hull", frame=fr, sub=list(sub), form=form)
    # float32 query points / grid coordinates next to float64 data at offsets of 1e7 with unit spacing (every value is exactly
    # representable in float32): seed C16-10, statistics turned into Python floats and then subtracted in float32
    for k in ks:
        for sub in itertools.combinations(range(16), k):
            for form in ("proj_nl_array", "proj_nl_grid"):
                if form == "proj_nl_array" or sum(sub) % 4 == 0:
                    yield dict(kind="hull", frame=[1.0, 0.0], sub=list(sub), form=form)
    # ... and clouds with many points ALONG oblique hull sides (triangles, a diamond, diagonal bands, the full lattice): points that are
    # not hull vertices before the projection become vertices after it
    idx = lambda cond: [i for i, p in enumerate(L44) if cond(p[0], p[1])]
    shapes = [idx(lambda x, y: x + y <= 3), idx(lambda x, y: x + y >= 3), idx(lambda x, y: x >= y), idx(lambda x, y: x <= y),
              idx(lambda x, y: abs(x - y) <= 1), idx(lambda x, y: abs(x + y - 3) <= 1), list(range(16)),
              idx(lambda x, y: abs(2 * x - 3) + abs(2 * y - 3) <= 4)]
    for sub in shapes:
        for form in ("proj_nl_array", "proj_nl_grid", "array2d", "proj_array"):
            yield dict(kind="hull", frame=[1.0, 0.0], sub=sub, form=form)
    for k in ks:
        for sub in itertools.combinations(range(16), k):
            if sum(sub) % 3 == seed % 3 or tier == "thorough":
                for form in ("f32q", "f32grid"):
                    yield dict(kind="hull", frame=[2.0, 1.0e7], sub=list(sub), form=form)
    yield dict(kind="hull_invalid")
    for nn in (2, 3, 4, 5):
        for ne in (2, 3, 4, 5):
            for hole in ("none", "cell", "block", "corner"):
                for proj in ("affine", "nonlinear", "rot"):
                    for method in ("linear", "nearest", "cubic"):
                        for anti in (False, True):
                            for req in ("default", "spacing", "region"):
                                for named in (True, False):
                                    if not named and (req != "default" or hole != "none"):
                                        continue
                                    if tier == "quick" and (nn + ne + len(hole) + len(method)) % 2 and req != "default":
                                        continue
                                    # how the DataArray was built: coordinate dict northing-first / easting-first (what verde's own
                                    # grids look like) / through make_xarray_grid; rotates over the cases (seed C16-8)
                                    nbuild += 1
                                    yield dict(kind="project", nn=nn, ne=ne, hole=hole, proj=proj, method=method, anti=anti, req=req, named=named,
                                               build=("ne", "en", "verde")[nbuild % 3], extra2d=(nbuild % 4 == 1))
    for bad in ("dataset", "1d", "3d", "method"):
        yield dict(kind="project_invalid", bad=bad)


# ----------------------------------------------------------------------------- exact hull
def _cross(o, a, b):
    return (a[0] - o[0]) * (b[1] - o[1]) - (a[1] - o[1]) * (b[0] - o[0])


def hull(points):
    pts = sorted(set(points))
    if len(pts) < 3:
        return pts
    lower, upper = [], []
    for p in pts:
        while len(lower) >= 2 and _cross(lower[-2], lower[-1], p) <= 0:
            lower.pop()
        lower.append(p)
    for p in reversed(pts):
        while len(upper) >= 2 and _cross(upper[-2], upper[-1], p) <= 0:
            upper.pop()
        upper.append(p)
    return lower[:-1] + upper[:-1]


def where(h, q, band=0):
    """+1 strictly inside, -1 strictly outside, 0 on the boundary (or within `band` of it, in cross-product units per unit edge)."""
    if len(h) < 3:
        return None
    sign = 1
    for i in range(len(h)):
        a, b = h[i], h[(i + 1) % len(h)]
        c = _cross(a, b, q)
        if band:
            ln = math.hypot(float(b[0] - a[0]), float(b[1] - a[1]))
            if abs(float(c)) <= band * ln:
                if sign > 0:
                    sign = 0
                continue
        if c < 0:
            return -1
        if c == 0:
            sign = min(sign, 0)
    return sign


def _projection(name):
    if name == "rot":
        # mixes easting and northing: the box of the projected valid nodes is not the projected box of the valid nodes (seed C16-r3_2)
        return lambda e, n: (np.asarray(e) + 2 * np.asarray(n), 2 * np.asarray(e) - np.asarray(n) + 3)
    if name == "affine":
        return lambda e, n: (2 * np.asarray(e) + 10, 3 * np.asarray(n) - 5)
    return lambda e, n: (np.asarray(e) + 0.0, np.asarray(n) + 10 * (np.asarray(n) / 10) ** 3)


def run(case, rec):
    import verde as vd
    import xarray as xr

    kind = case["kind"]
    if kind == "hull_invalid":
        rec.trivial = True
        got = call(rec, vd.convexhull_mask, (np.array([0.0, 1.0, 0.0]), np.array([0.0, 0.0, 1.0])))
        rec.check(raised(got) and isinstance(got.exc, ValueError), "convexhull_mask without coordinates or grid must raise")
        return
    if kind == "hull":
        sc, off = case["frame"]
        pts = [L44[i] for i in case["sub"]]
        h = hull(pts)
        if len(h) < 3:
            rec.trivial = True
            rec.skip("degenerate (collinear) hull: outside the quantifier")
            return
        # query lattice: half units (11 x 11); quarter-and-eighth units (41 x 21) for the non-linear projection, whose slivers are thin
        fine = case["form"].startswith("proj_nl")
        nqe, nqn = (41, 21) if fine else (11, 11)
        qs = [(i / 8, j / 4) for j in range(-4, 17) for i in range(-8, 33)] if fine else [(i / 2, j / 2) for j in range(-2, 9) for i in range(-2, 9)]
        h2 = [(8 * x, 8 * y) for x, y in h]
        verdict = [where(h2, (int(8 * q[0]), int(8 * q[1]))) for q in qs]
        de = np.array([p[0] * sc + off for p in pts]); dn = np.array([p[1] * sc - off / 2 for p in pts])
        qe = np.array([q[0] * sc + off for q in qs]).reshape(nqn, nqe)
        qn = np.array([q[1] * sc - off / 2 for q in qs]).reshape(nqn, nqe)
        form = case["form"]
        if form in ("int", "int_e"):
            # integer-valued data coordinates with an integer dtype (both, or the easting only)
            if not (np.all(de == np.round(de)) and np.all(dn == np.round(dn))):
                rec.trivial = True
                rec.skip("frame does not keep the data coordinates integer valued")
                return
            de = de.astype(np.int64)
            if form == "int":
                dn = dn.astype(np.int64)
        if form == "F":
            qe, qn = np.asfortranarray(qe), np.asfortranarray(qn)
        if form in ("f32q", "f32grid"):
            if not (np.array_equal(qe.astype(np.float32).astype(float), qe) and np.array_equal(qn.astype(np.float32).astype(float), qn)):
                rec.trivial = True
                return rec.skip("query lattice not representable in float32 in this frame")
            qe, qn = qe.astype(np.float32), qn.astype(np.float32)
        pkw = {}
        if form in ("proj_nl_array", "proj_nl_grid"):
            # a NON-LINEAR (monotone) projection: the hull is that of the projected data, which is not the projection of the hull of the
            # data (seed C16-13: only the hull vertices of the unprojected data were projected). Exact: squares of half-integers.
            pkw["projection"] = lambda a, b: ((np.asarray(a, dtype=float) + 2.0) ** 2, np.asarray(b, dtype=float) + 0.0)
            pp = [((F(p[0]) + 2) ** 2, F(p[1])) for p in pts]
            hp = hull(pp)
            if len(hp) < 3:
                rec.trivial = True
                return rec.skip("degenerate projected hull")
            verdict = [where(hp, ((F(q[0]) + 2) ** 2, F(q[1]))) for q in qs]
        if form in ("proj_array", "proj_grid"):
            # the projection is applied to BOTH the data and the query points / grid nodes (a rotation plus scaling keeps hull
            # membership of every lattice point): seed C16-r3_1
            pkw["projection"] = lambda a, b: (2 * (np.asarray(a) + np.asarray(b)) + 7, 3 * (np.asarray(a) - np.asarray(b)) - 1)
        if form in ("grid", "grid_desc", "proj_grid", "f32grid", "proj_nl_grid"):
            vals = np.arange(float(nqn * nqe)).reshape(nqn, nqe) + 1.0
            if form == "grid_desc":
                # a grid whose coordinate vectors run north-to-south and east-to-west (round 9, seed C16-18: a window found with searchsorted)
                grid = xr.Dataset({"v": (("northing", "easting"), vals[::-1, ::-1].copy())}, coords={"easting": qe[0, ::-1].copy(), "northing": qn[::-1, 0].copy()})
            else:
                grid = xr.Dataset({"v": (("northing", "easting"), vals)}, coords={"easting": qe[0, :], "northing": qn[:, 0]})
            got = call(rec, vd.convexhull_mask, (de, dn), grid=grid, **pkw)
            if raised(got):
                return rec.check(False, "convexhull_mask(grid) raised %r" % (got,))
            gv = np.asarray(got["v"].values)
            if form == "grid_desc":
                gv = gv[::-1, ::-1]
            mask = ~np.isnan(gv)
            rec.check(bool(np.all(gv[mask] == vals[mask])), "grid form changed values it kept")
        else:
            a, b = (qe.ravel(), qn.ravel()) if form == "array1d" else (qe, qn)
            before = (de.tobytes(), dn.tobytes(), a.tobytes(), b.tobytes())
            got = call(rec, vd.convexhull_mask, (de, dn), coordinates=(a, b), **pkw)
            if raised(got):
                return rec.check(False, "convexhull_mask raised %r" % (got,))
            # the caller's arrays are untouched, so a second call with the very same arrays gives the same mask (seed C16-1)
            rec.check((de.tobytes(), dn.tobytes(), a.tobytes(), b.tobytes()) == before, "convexhull_mask modified the arrays it was given")
            again = call(rec, vd.convexhull_mask, (de, dn), coordinates=(a, b), **pkw)
            rec.check(not raised(again) and np.array_equal(np.asarray(again), np.asarray(got)), "a second call with the same arrays gives a different mask")
            mask = np.asarray(got)
            rec.check(mask.dtype == bool and mask.shape == a.shape, "mask must be boolean in the query shape")
            mask = mask.reshape(nqn, nqe)
        mf = mask.ravel()
        bad = [(qs[i], bool(mf[i]), verdict[i]) for i in range(nqn * nqe) if (verdict[i] == 1 and not mf[i]) or (verdict[i] == -1 and mf[i])]
        rec.check(not bad, "hull membership wrong for %s (data %s, frame %s)" % (bad[:4], pts, case["frame"]))
        rec.trivial = not any(v == 1 for v in verdict)
        rec.count("points_tested", nqn * nqe)
        rec.cls("hull/%s/k=%d" % (form, len(pts)))
        return
    if kind == "project_invalid":
        rec.trivial = True
        bad = case["bad"]
        da = xr.DataArray(np.arange(6.0).reshape(2, 3), coords={"northing": [0.0, 1.0], "easting": [0.0, 1.0, 2.0]}, dims=("northing", "easting"), name="t")
        pf = _projection("affine")
        if bad == "dataset":
            got = call(rec, vd.project_grid, xr.Dataset({"t": da}), pf)
        elif bad == "1d":
            got = call(rec, vd.project_grid, xr.DataArray(np.arange(3.0), coords={"easting": [0.0, 1.0, 2.0]}, dims=("easting",)), pf)
        elif bad == "3d":
            got = call(rec, vd.project_grid, xr.DataArray(np.zeros((2, 2, 2)), dims=("t", "northing", "easting")), pf)
        else:
            got = call(rec, vd.project_grid, da, pf, method="quintic")
        rec.check(raised(got) and isinstance(got.exc, ValueError), "project_grid(%s) must raise ValueError, got %r" % (bad, type(got)))
        return
    # ------------------------------------------------------------------ project_grid
    nn, ne = case["nn"], case["ne"]
    east = np.arange(ne, dtype=float) * 2.0
    north = np.arange(nn, dtype=float) * 1.0 + 1.0
    vals = 100.0 * north[:, None] + east[None, :]
    hole = case["hole"]
    if hole == "cell":
        vals[nn // 2, ne // 2] = np.nan
    elif hole == "block" and nn >= 4 and ne >= 4:
        vals[1:3, 1:3] = np.nan
    elif hole == "block":
        vals[0, 0] = np.nan; vals[-1, -1] = np.nan
    elif hole == "corner":
        vals[-1, -1] = np.nan
        if nn > 2 and ne > 2:
            vals[-1, -2] = np.nan; vals[-2, -1] = np.nan
    build = case.get("build", "ne")
    if build == "en":
        da = xr.DataArray(vals, coords={"easting": east, "northing": north}, dims=("northing", "easting"))
    elif build == "verde":
        da = vd.make_xarray_grid((east, north), vals, data_names="scalars")["scalars"]
        da.name = None
    else:
        da = xr.DataArray(vals, coords={"northing": north, "easting": east}, dims=("northing", "easting"))
    if case["named"]:
        da.name = "temp"
    if case.get("extra2d"):
        # a 2-D non-dimension coordinate travels with the grid (seed C16-9: table columns taken by position)
        da = da.assign_coords(upward=(("northing", "easting"), 1000.0 + 7.0 * np.arange(vals.size, dtype=float).reshape(vals.shape)))
    pf = _projection(case["proj"])
    valid = [(i, j) for i in range(nn) for j in range(ne) if not np.isnan(vals[i, j])]
    pe, pn = pf(np.array([east[j] for i, j in valid]), np.array([north[i] for i, j in valid]))
    ppts = [(F(float(a)), F(float(b))) for a, b in zip(pe, pn)]
    h = hull(ppts)
    data_region = [float(pe.min()), float(pe.max()), float(pn.min()), float(pn.max())]
    kw = dict(method=case["method"], antialias=case["anti"])
    req = case["req"]
    region, shape = data_region, (nn, ne)
    if req == "spacing":
        kw["spacing"] = ((data_region[3] - data_region[2]) / 4, (data_region[1] - data_region[0]) / 3)
    elif req == "region":
        cw, ch = (data_region[1] - data_region[0]) / 4, (data_region[3] - data_region[2]) / 4
        region = [data_region[0] + cw, data_region[1] - cw, data_region[2] + ch, data_region[3] - ch]
        kw["region"] = region
    got = call(rec, vd.project_grid, da, pf, **kw)
    if raised(got):
        nm = type(got.exc).__name__
        if "Qhull" in nm or "QH" in str(got.exc)[:40] or len(h) < 3:
            rec.trivial = True
            rec.skip("Qhull refused the (block-averaged) point set: implementation-only failure")
            rec.cls("project:qhull-refusal")
            return
        return rec.check(False, "project_grid raised %r" % (got,))
    rec.check(isinstance(got, xr.DataArray), "project_grid must return a DataArray")
    rec.check(got.name == ("temp" if case["named"] else "scalars"), "name %r" % (got.name,))
    rec.check(tuple(got.dims) == ("northing", "easting"), "dims %r" % (got.dims,))
    # coordinates: regular grid of the (projected) region
    if req == "spacing":
        lay_e = G.axis_layouts(region[0], region[1], spacing=kw["spacing"][1])
        lay_n = G.axis_layouts(region[2], region[3], spacing=kw["spacing"][0])
    else:
        # default spacing derives from shape_to_spacing(region, shape) and is then applied as a spacing
        lay_e = G.axis_layouts(region[0], region[1], size=ne)
        lay_n = G.axis_layouts(region[2], region[3], size=nn)
    ce, cn = np.asarray(got.easting.values), np.asarray(got.northing.values)
    ok_e = G.match_axis(ce, lay_e[0], (region[0], region[1]), nulp=16) is not None
    ok_n = G.match_axis(cn, lay_n[0], (region[2], region[3]), nulp=16) is not None
    rec.check(ok_e and ok_n, "output coordinates %s / %s are not the regular grid of the projected region %r with %s"
              % (ce.tolist(), cn.tolist(), region, "shape %s" % ((nn, ne),) if req != "spacing" else "spacing %r" % (kw["spacing"],)))
    if req != "spacing":
        rec.check(got.shape == (nn, ne), "output shape %s != input shape %s" % (got.shape, (nn, ne)))
    out = np.asarray(got.values)
    if out.shape != (cn.size, ce.size) or len(h) < 3:
        return
    step = max((data_region[1] - data_region[0]) / max(ne - 1, 1), (data_region[3] - data_region[2]) / max(nn - 1, 1))
    band = (0.75 * step) if case["anti"] else 1e-9 * max(abs(v) for v in data_region + [1.0])
    fin = [v for v in vals.ravel() if not np.isnan(v)]
    vmin, vmax = min(fin), max(fin)
    nin = nout = 0
    for i in range(cn.size):
        for j in range(ce.size):
            q = (F(float(ce[j])), F(float(cn[i])))
            w = where(h, q, band=band)
            v = out[i, j]
            if w == -1:
                nout += 1
                rec.check(np.isnan(v), "node (%r, %r) lies outside the hull of the projected data but holds %r" % (ce[j], cn[i], v))
            elif w == 1:
                nin += 1
                rec.check(np.isfinite(v), "node (%r, %r) lies inside the hull of the projected data but is NaN" % (ce[j], cn[i]))
            if np.isfinite(v) and case["method"] != "cubic":
                slack = 1e-9 * max(abs(vmin), abs(vmax), 1.0)
                rec.check(vmin - slack <= v <= vmax + slack, "value %r outside the range of the input [%r, %r]" % (v, vmin, vmax))
    rec.count("nodes_inside", nin)
    rec.count("nodes_outside", nout)
    # nearest-neighbour method: the value of every finite node is the value of the nearest data point - of the nearest BLOCK MEAN
    # (blocks of the output spacing over the region of the projected data) when antialiasing is on; exact arithmetic, skipped where
    # the block of a point or the nearest neighbour of a node is not unique (mutation survivor: spacing=shape in the antialias step)
    if case["method"] == "nearest":
        P = [(F(float(a)), F(float(b)), F(float(vals[i, j]))) for (i, j), a, b in zip(valid, pe, pn)]
        red = P
        if case["anti"]:
            red = None
            sp_n, sp_e = kw["spacing"] if req == "spacing" else ((region[3] - region[2]) / (nn - 1), (region[1] - region[0]) / (ne - 1))
            kes, _ = G.n_intervals(data_region[0], data_region[1], sp_e)
            kns, _ = G.n_intervals(data_region[2], data_region[3], sp_n)
            if len(kes) == 1 and len(kns) == 1 and data_region[1] > data_region[0] and data_region[3] > data_region[2]:
                kb_e, kb_n = list(kes)[0], list(kns)[0]
                mag = max(abs(v) for v in data_region)
                guard = (64 * float(np.spacing(mag)), 64 * float(np.spacing(mag)))
                groups = {}
                unique = True
                for a, b, v in P:
                    adm = G.block_index_exact(float(a), float(b), data_region, kb_e, kb_n, guard)
                    if len(adm) != 1:
                        unique = False
                        break
                    groups.setdefault(next(iter(adm)), []).append((a, b, v))
                if unique:
                    red = [(sum(x[0] for x in g) / len(g), sum(x[1] for x in g) / len(g), sum(x[2] for x in g) / len(g)) for g in groups.values()]
        if red is None:
            rec.count("nearest_value_cases_with_ambiguous_blocks", 1)
        else:
            vscale = max(abs(vmin), abs(vmax), 1.0)
            badv = None
            ncmp = 0
            for i in range(cn.size):
                for j in range(ce.size):
                    v = out[i, j]
                    if not np.isfinite(v):
                        continue
                    q = (F(float(ce[j])), F(float(cn[i])))
                    ds_ = sorted(((a - q[0]) ** 2 + (b - q[1]) ** 2, val) for a, b, val in red)
                    if len(ds_) > 1 and ds_[1][0] - ds_[0][0] <= F(1, 10 ** 9) * (ds_[1][0] + F(1, 10 ** 12)):
                        continue
                    ncmp += 1
                    if abs(F(float(v)) - ds_[0][1]) > F(1, 10 ** 9) * F(vscale) and badv is None:
                        badv = (float(ce[j]), float(cn[i]), float(v), float(ds_[0][1]))
            rec.count("nearest_values_compared", ncmp)
            rec.check(badv is None, "nearest method%s: node (%r, %r) holds %r, the nearest %s has %r"
                      % ((" with antialiasing" if case["anti"] else "",) + (badv[:3] if badv else (0, 0, 0)) + ("block mean" if case["anti"] else "data point", badv[3] if badv else 0)))
    # affine projection, no antialiasing, default grid: projected nodes that carried data keep their values
    if case["proj"] == "affine" and not case["anti"] and req == "default" and out.shape == vals.shape and hole == "none":
        tol = 0.0 if case["method"] in ("nearest",) else 1e-9 * vmax
        rec.check(bool(np.all(np.abs(out - vals) <= tol)), "affine projection without antialiasing changed the values at the data nodes: %s vs %s"
                  % (out.tolist(), vals.tolist()))
    rec.trivial = len(valid) < 3
    rec.cls("project/%s/%s/aa=%d/%s" % (case["proj"], case["method"], case["anti"], req))
